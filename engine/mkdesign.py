"""Regenerates the generated parts of DESIGN.md: the obligation table of every '### Cxx' section (from props/Cxx.py) and the table of
section 9 (from seeded/*/meta.json + result.json).  Hand-written prose is left alone."""
import importlib
import json
import os
import re
import sys

HOME = os.path.dirname(os.path.dirname(os.path.abspath(__file__)))
sys.path.insert(0, HOME)
sys.path.insert(0, os.path.join(HOME, 'harness'))


def ob_table(prop):
    m = importlib.import_module('props.' + prop)
    q = {o.name: o for o in m.obligations('quick') if 'quick' in o.tiers}
    t = {o.name: o for o in m.obligations('thorough') if 'thorough' in o.tiers}
    rows = ['| obligation | kind | tier | bound |', '|---|---|---|---|']
    for name in list(q) + [n for n in t if n not in q]:
        o = q.get(name) or t[name]
        tier = 'quick+thorough' if name in q and name in t else ('quick' if name in q else 'thorough')
        kind = o.kind + (' x%d parts' % o.parts if getattr(o, 'parts', 1) > 1 else '')
        bound = o.bound
        if name in q and name in t and q[name].bound != t[name].bound:
            bound = 'quick: %s; thorough: %s' % (q[name].bound, t[name].bound)
        rows.append('| `%s` | %s | %s | %s |' % (name, kind, tier, bound.replace('|', '\\|')))
    return rows


def seeded_table():
    rows = ['| seeded change | property | what it needs to manifest | confirmed (tests pass, demo fails only with the change) | caught by (quick tier) |', '|---|---|---|---|---|']
    base = os.path.join(HOME, 'seeded')
    for d in sorted(os.listdir(base)):
        mp, rp = os.path.join(base, d, 'meta.json'), os.path.join(base, d, 'result.json')
        if not (os.path.exists(mp) and os.path.exists(rp)):
            continue
        m, r = json.load(open(mp)), json.load(open(rp))
        files = m.get('files_changed')
        files = ', '.join(os.path.basename(f) for f in files) if isinstance(files, list) else str(files)
        need = str(m.get('needs_to_manifest', '')).replace('\n', ' ').replace('|', '\\|')
        if len(need) > 260:
            need = need[:257] + '...'
        caught = []
        for c, v in (r.get('checks') or {}).items():
            if v.get('caught'):
                caught.append('%s: %s' % (c, ', '.join('`%s`' % o for o in v.get('obligations', [])) or 'exit 1'))
            else:
                caught.append('%s: **missed** (exit %s)' % (c, v.get('exit')))
        note = r.get('note', '')
        rows.append('| `seeded/%s` (%s) | %s | %s | %s | %s%s |' % (d, files, m.get('property', d[:3]), need, 'yes' if r.get('confirmed') else 'NO',
                                                                 '; '.join(caught) or '-', (' - ' + note) if note else ''))
    return rows


def main():
    path = os.path.join(HOME, 'DESIGN.md')
    lines = open(path).read().split('\n')
    out = []
    i = 0
    while i < len(lines):
        l = lines[i]
        out.append(l)
        m = re.match(r'^### (C\d\d) ', l)
        if m and os.path.exists(os.path.join(HOME, 'props', m.group(1) + '.py')):
            # copy up to the first table line, replace the table
            j = i + 1
            while j < len(lines) and not lines[j].startswith('|') and not lines[j].startswith('#'):
                out.append(lines[j])
                j += 1
            if j < len(lines) and lines[j].startswith('|'):
                while j < len(lines) and lines[j].startswith('|'):
                    j += 1
                out.extend(ob_table(m.group(1)))
            i = j
            continue
        if l.startswith('<!-- seeded-table-begin -->'):
            j = i + 1
            while not lines[j].startswith('<!-- seeded-table-end -->'):
                j += 1
            out.extend(seeded_table())
            i = j
            continue
        i += 1
    open(path, 'w').write('\n'.join(out))


if __name__ == '__main__':
    main()
