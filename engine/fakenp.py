"""List-backed stand-in for the numpy subset used by TotalDepth.common.LogPass / RP66V1 LogPass."""
import itertools
class ListArray:
    def __init__(self, shape, dtype=None):
        self.shape = tuple(shape); self.dtype = dtype
        n = 1
        for d in self.shape: n *= d
        self._v = [None] * n
        self.itemsize = 8
    def _flat(self, key):
        if not isinstance(key, tuple): key = (key,)
        assert len(key) == len(self.shape)
        idx = 0
        for k, d in zip(key, self.shape):
            if not (0 <= k < d): raise IndexError(key)
            idx = idx * d + k
        return idx
    def __len__(self): return self.shape[0]
    @property
    def size(self):
        n = 1
        for d in self.shape: n *= d
        return n
    def __setitem__(self, key, v): self._v[self._flat(key)] = v
    def __getitem__(self, key):
        if isinstance(key, tuple) and len(key) == len(self.shape): return self._v[self._flat(key)]
        if isinstance(key, int):
            sub = ListArray(self.shape[1:], self.dtype)
            n = sub.size
            sub._v = self._v[key * n:(key + 1) * n]
            return sub
        raise TypeError(key)
    def mean(self): return self._v[0]
    def tolist(self): return list(self._v)
class FakeNp:
    float64 = 'f8'; float32 = 'f4'; int8='i1'; int16='i2'; int32='i4'; uint8='u1'; uint16='u2'; uint32='u4'; uint64='u8'
    ndarray = ListArray
    @staticmethod
    def empty(shape, dtype=None):
        if isinstance(shape, int): shape = (shape,)
        return ListArray(shape, dtype)
    @staticmethod
    def dtype(x): return x
