"""List-backed stand-in for the numpy subset used by TotalDepth.common.LogPass / RP66V1 LogPass / BIT / LAS (values stay symbolic)."""


class ListArray:
    def __init__(self, shape, dtype=None):
        self.shape = tuple(shape)
        self.dtype = dtype
        n = 1
        for d in self.shape:
            n *= d
        self._v = [None] * n
        self.itemsize = 8

    def _flat(self, key):
        idx = 0
        for k, d in zip(key, self.shape):
            if k < 0:
                k += d
            if not (0 <= k < d):
                raise IndexError(key)
            idx = idx * d + k
        return idx

    def __len__(self):
        return self.shape[0]

    @property
    def size(self):
        n = 1
        for d in self.shape:
            n *= d
        return n

    def _row(self):
        n = 1
        for d in self.shape[1:]:
            n *= d
        return n

    def __setitem__(self, key, v):
        if isinstance(key, tuple) and len(key) == len(self.shape):
            self._v[self._flat(key)] = v
        elif isinstance(key, tuple):
            raise TypeError(key)
        else:
            # numpy broadcasting of a scalar over one row
            if key < 0:
                key += self.shape[0]
            if not (0 <= key < self.shape[0]):
                raise IndexError(key)
            n = self._row()
            for i in range(key * n, (key + 1) * n):
                self._v[i] = v

    def __getitem__(self, key):
        if isinstance(key, tuple) and len(key) == len(self.shape):
            return self._v[self._flat(key)]
        if isinstance(key, slice):
            idx = range(*key.indices(self.shape[0]))
            sub = ListArray((len(idx),) + self.shape[1:], self.dtype)
            n = self._row()
            sub._v = [x for i in idx for x in self._v[i * n:(i + 1) * n]]
            return sub
        if isinstance(key, tuple):
            raise TypeError(key)
        if key < 0:
            key += self.shape[0]
        if not (0 <= key < self.shape[0]):
            raise IndexError(key)
        if len(self.shape) == 1:
            return self._v[key]
        sub = ListArray(self.shape[1:], self.dtype)
        n = sub.size
        sub._v = self._v[key * n:(key + 1) * n]
        return sub

    def mean(self):
        return self._v[0]

    def tolist(self):
        return list(self._v)

    def flat_values(self):
        return list(self._v)


class FakeNp:
    float64 = 'f8'
    float32 = 'f4'
    int8 = 'i1'
    int16 = 'i2'
    int32 = 'i4'
    int64 = 'i8'
    uint8 = 'u1'
    uint16 = 'u2'
    uint32 = 'u4'
    uint64 = 'u8'
    ndarray = ListArray

    @staticmethod
    def empty(shape, dtype=None):
        if isinstance(shape, int):
            shape = (shape,)
        return ListArray(shape, dtype)

    @staticmethod
    def dtype(x):
        return x
