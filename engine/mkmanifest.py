"""Regenerates MANIFEST.json from the props/ modules that exist (each defines CLAIM) plus the not-applicable table below."""
import importlib
import json
import os
import sys

HOME = os.path.dirname(os.path.dirname(os.path.abspath(__file__)))
sys.path.insert(0, HOME)

NOT_APPLICABLE = {
    'C12': 'The quantifiers are OS process schedules of a multiprocessing.Pool and faults in files on a real file system; neither can be '
           'made a solver variable with the installed tools (CrossHair does not execute across processes, the conversion entry points take '
           'paths and do real I/O) and the encodable fragment is too small to stand for the property (DESIGN.md section 6).',
}
NOT_YET = 'check not built yet in this session (planned, see DESIGN.md section 5)'
ALL = ['C%02d' % i for i in range(1, 21)]


def main():
    checks = []
    na = []
    engines = {}
    for pid in ALL:
        if pid in NOT_APPLICABLE:
            na.append(dict(property_id=pid, reason=NOT_APPLICABLE[pid]))
            continue
        if not os.path.exists(os.path.join(HOME, 'props', pid + '.py')):
            na.append(dict(property_id=pid, reason=NOT_YET))
            continue
        src = open(os.path.join(HOME, 'props', pid + '.py')).read()
        ns = {}
        # CLAIM is a plain dict literal at module level: read it without importing z3 etc.
        import ast
        claim = None
        for node in ast.parse(src).body:
            if isinstance(node, ast.Assign) and getattr(node.targets[0], 'id', '') == 'CLAIM':
                claim = {k.arg: ast.literal_eval(k.value) for k in node.value.keywords}
        if claim is None:
            na.append(dict(property_id=pid, reason=NOT_YET))
            continue
        checks.append(dict(
            property_id=pid,
            quick_cmd='./check %s --tier quick' % pid,
            thorough_cmd='./check %s --tier thorough' % pid,
            evidence_file='evidence/%s.json' % pid,
            replay_cmd_template='./check %s --replay {path}' % pid,
            engine=claim['engine'],
            level_claimed=dict(category='other', text=claim['text'], design_ref=claim.get('design_ref', 'DESIGN.md section 5 ' + pid)),
            level_note=claim['note'],
            technique=claim['technique'],
        ))
        for e in claim['engine'].split('+'):
            engines.setdefault(e.strip(), []).append(pid)
    eng_desc = {
        'py2smt': ('engine/py2smt.py', 'Python AST of the current sources -> z3 BV/FP/Int/Real terms, branches merged with ite; one SMT query per obligation'),
        'pyx2py': ('engine/pyx2py.py', 'Cython .pyx rewritten to Python with explicit C conversions, then py2smt'),
        'll2smt': ('engine/ll2smt.py', 'clang -O1 LLVM IR of LISRepCode.cpp -> z3 terms'),
        're2smt': ('engine/re2smt.py', 'compiled re patterns read from the live modules -> z3 regular expressions; language inclusion queries'),
        'crosshair': ('engine/core.py', 'CrossHair symbolic execution (z3) of contract functions in harness/ calling the real API; ch_bits plugin keeps & | ^ symbolic'),
    }
    manifest = dict(
        version=1,
        setup_cmd='./check --setup',
        hooks=dict(guard='PAULROSS_TOTALDEPTH_VERIF', enable='no hooks in /repo: every stub is injected from the harness side inside the checking process',
                   baseline_off_cmd='cd /repo && /venv/bin/python -m pytest -ra -q -p no:cacheprovider --timeout=900 --continue-on-collection-errors',
                   source_commits=[], add_only=True),
        engines=[dict(name=k, path=eng_desc[k][0], serves_properties=v, kind_free_text=eng_desc[k][1]) for k, v in engines.items() if k in eng_desc],
        checks=checks,
        notes='Solver-based bounded checking (z3 via a Python-AST/LLVM-IR/regex translator, and CrossHair). Exit 0 = no reproducing counterexample; '
              'evidence lists per obligation whether it was discharged (unsat / confirmed over all paths) or left inconclusive. Exit 3 = harness error. '
              'known_findings.json lists recorded genuine defects and the fix: commits.',
        not_applicable=na,
    )
    with open(os.path.join(HOME, 'MANIFEST.json'), 'w') as f:
        json.dump(manifest, f, indent=1)
    print('MANIFEST.json: %d checks, %d not applicable/not yet' % (len(checks), len(na)))


if __name__ == '__main__':
    main()
