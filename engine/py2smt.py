"""E1: Python AST -> z3 terms (DESIGN.md section 3).

A small symbolic evaluator over the *current source* of TotalDepth functions (inspect.getsource at run time).
Branches are merged with ite, so the result of encoding a function is ONE term per outcome:

    Outcome.value   : the returned value (z3 term / tuple of terms / concrete Python value)
    Outcome.raises  : list of (condition, exception class name)
    Outcome.side    : conditions under which the *encoding* (not the code) would be wrong: BV overflow of an unbounded
                      Python int, int->float beyond 2**53, loop unwinding bound exceeded, ldexp exponent out of model range.
                      Every obligation must show  assumptions => not Or(side)  (reported as 'encoding side-condition').

Anything outside the supported subset raises NotEncodable - the obligation is then inconclusive, never a pass.
"""
import ast
import inspect
import math
import struct
import textwrap
import types

import z3

RNE = z3.RNE()
RTZ = z3.RTZ()
F64 = z3.Float64()
F32 = z3.Float32()
FW = z3.FPSort(15, 53)     # wide exponent format: exact scaling by 2**k, |k| <= 16000, then ONE rounding to binary64


class NotEncodable(Exception):
    pass


# token kinds of the character-encoder model: what one output item denotes
TOK_ENTITY, TOK_NUMREF, TOK_LITERAL = 1, 2, 3


class SInt:
    def __init__(self, e):
        self.e = e


class SChar(SInt):
    """One character of a str, as its code point (model of str for the character-wise encoders)."""


class SFloat:
    def __init__(self, e):
        self.e = e


class SBool:
    def __init__(self, e):
        self.e = e


class Pow2:
    """2**k for symbolic integer k (int if k >= 0 else float); only usable as a factor/divisor of a float."""
    def __init__(self, k):
        self.k = k      # SInt or int


class SObj:
    def __init__(self, cls, oid):
        self.cls, self.oid = cls, oid


class CondList:
    """Result of a generator whose yields are conditional: items = [(condition, value)] in program order.  Element k of the
    generated sequence is the k-th item whose condition holds."""
    def __init__(self, items):
        self.items = list(items)


class _Return(Exception):
    pass


class _Dead(Exception):
    """Every path of the statement being evaluated has raised: the continuation is unreachable."""


class Outcome:
    def __init__(self, value, raises, side, yields=None):
        self.value, self.raises, self.side, self.yields = value, raises, side, yields

    def raised(self, *names):
        cs = [c for c, n in self.raises if (not names or n in names)]
        return z3.Or(*cs) if cs else z3.BoolVal(False)

    def ok(self):
        return z3.Not(self.raised())


class Ctx:
    def __init__(self, int_mode='bv', width=64, float_mode='fp', unwind=8, extra_calls=None, narrow=True):
        """narrow=True: ldexp/2**k only for -1022 <= k <= 1023 and frexp only for normal or zero doubles (plain binary64
        terms; the restriction becomes an encoding side condition).  narrow=False: exact through a 15-bit-exponent format."""
        self.int_mode, self.W, self.float_mode, self.unwind = int_mode, width, float_mode, unwind
        self.narrow = narrow
        self.side = []
        self.raises = []
        self.heap = {}
        self._oid = 0
        self.extra_calls = extra_calls or {}
        self.encoded = set()
        self.uf_log10 = z3.Function('log10', z3.RealSort(), z3.RealSort())

    # ---- constructors
    def int_var(self, name):
        return SInt(z3.BitVec(name, self.W) if self.int_mode == 'bv' else z3.Int(name))

    def int_val(self, v):
        return z3.BitVecVal(v, self.W) if self.int_mode == 'bv' else z3.IntVal(v)

    def float_var(self, name):
        return SFloat(z3.FP(name, F64) if self.float_mode == 'fp' else z3.Real(name))

    def float_val(self, v):
        if self.float_mode == 'fp':
            return z3.FPVal(v, F64)
        import fractions
        fr = fractions.Fraction(v)
        return z3.RealVal(fr.numerator) / z3.RealVal(fr.denominator) if fr.denominator != 1 else z3.RealVal(fr.numerator)

    def from_bv(self, bv, signed=False):
        """A z3 bit-vector of any width as a Python int value."""
        n = bv.size()
        if self.int_mode == 'bv':
            if n < self.W:
                return SInt(z3.SignExt(self.W - n, bv) if signed else z3.ZeroExt(self.W - n, bv))
            if n == self.W:
                return SInt(bv)
            raise NotEncodable('bit-vector wider than int model')
        return SInt(z3.BV2Int(bv, signed))

    def new_obj(self, cls, attrs):
        self._oid += 1
        self.heap[self._oid] = dict(attrs)
        return SObj(cls, self._oid)

    # ---- lifting
    def lift_int(self, v):
        if isinstance(v, SInt):
            return v.e
        if isinstance(v, SBool):
            return z3.If(v.e, self.int_val(1), self.int_val(0))
        if isinstance(v, bool):
            return self.int_val(int(v))
        if isinstance(v, int):
            if self.int_mode == 'bv' and not (-(1 << (self.W - 1)) <= v < (1 << (self.W - 1))):
                raise NotEncodable('constant %d does not fit the %d-bit int model' % (v, self.W))
            return self.int_val(v)
        raise NotEncodable('not an int: %r' % (v,))

    def lift_float(self, v):
        if isinstance(v, SFloat):
            return v.e
        if isinstance(v, float):
            return self.float_val(v)
        if isinstance(v, (SInt, int, bool, SBool)):
            return self.int_to_float(v)
        raise NotEncodable('not a float: %r' % (v,))

    def lift_bool(self, v):
        if isinstance(v, SBool):
            return v.e
        if isinstance(v, SInt):
            return v.e != self.int_val(0)
        if isinstance(v, SFloat):
            if self.float_mode == 'fp':
                return z3.Not(z3.fpIsZero(v.e))
            return v.e != 0
        if isinstance(v, (Pow2, SObj)):
            return z3.BoolVal(True)
        return z3.BoolVal(bool(v))

    def int_to_float(self, v):
        if isinstance(v, (int, bool)) and not isinstance(v, SInt):
            return self.float_val(float(v))
        e = self.lift_int(v)
        if self.float_mode == 'real':
            return z3.ToReal(e) if self.int_mode == 'int' else z3.ToReal(z3.BV2Int(e, True))
        if self.int_mode == 'bv':
            return z3.fpSignedToFP(RNE, e, F64)
        self.side.append(z3.Or(e > (1 << 53), e < -(1 << 53)))
        return z3.fpRealToFP(RNE, z3.ToReal(e), F64)

    # ---- float library models
    def pow2_wide(self, k):
        """2**k as FW for a BV/Int k clamped to [-4000, 4000] (beyond that every binary64 product is 0 or overflow alike)."""
        if self.int_mode != 'bv':
            raise NotEncodable('pow2 needs the BV int model')
        lo, hi = self.int_val(-4000), self.int_val(4000)
        kc = z3.If(k < lo, lo, z3.If(k > hi, hi, k))
        biased = z3.Extract(14, 0, kc + self.int_val(16383))
        return z3.fpFP(z3.BitVecVal(0, 1), biased, z3.BitVecVal(0, 52))

    def ldexp(self, x, k, pc=None):
        """math.ldexp(x, k): exact scaling, one rounding (via the wide format).  OverflowError when the result overflows."""
        xf = self.lift_float(x)
        if self.float_mode == 'real':
            raise NotEncodable('ldexp in Real mode')
        ke = self.lift_int(k)
        if self.narrow:
            self.side.append(z3.And(pc if pc is not None else z3.BoolVal(True), z3.Or(ke > self.int_val(1023), ke < self.int_val(-1022))))
            p = z3.fpFP(z3.BitVecVal(0, 1), z3.Extract(10, 0, ke + self.int_val(1023)), z3.BitVecVal(0, 52))
            r = z3.fpMul(RNE, xf, p)
            return SFloat(r), z3.And(z3.fpIsInf(r), z3.Not(z3.fpIsInf(xf)))
        wide = z3.fpMul(RNE, z3.fpToFP(RNE, xf, FW), self.pow2_wide(ke))
        r = z3.fpToFP(RNE, wide, F64)
        return SFloat(r), z3.And(z3.fpIsInf(r), z3.Not(z3.fpIsInf(xf)))

    def frexp(self, v, pc=None):
        xf = self.lift_float(v)
        if self.narrow:
            self.side.append(z3.And(pc if pc is not None else z3.BoolVal(True), z3.fpIsSubnormal(xf)))
            bits = z3.fpToIEEEBV(xf)
            e = self.from_bv(z3.Extract(62, 52, bits)).e - self.int_val(1022)
            m = z3.fpFP(z3.Extract(63, 63, bits), z3.BitVecVal(1022, 11), z3.Extract(51, 0, bits))
            special = z3.Or(z3.fpIsZero(xf), z3.fpIsInf(xf), z3.fpIsNaN(xf))
            return (SFloat(z3.If(special, xf, m)), SInt(z3.If(special, self.int_val(0), e)))
        wide = z3.fpToFP(RNE, xf, FW)
        bits = z3.fpToIEEEBV(wide)      # 1 + 15 + 52
        be = z3.Extract(66, 52, bits)
        e = self.from_bv(be).e - self.int_val(16382)
        m = z3.fpFP(z3.Extract(67, 67, bits), z3.BitVecVal(16382, 15), z3.Extract(51, 0, bits))
        m64 = z3.fpToFP(RNE, m, F64)
        special = z3.Or(z3.fpIsZero(xf), z3.fpIsInf(xf), z3.fpIsNaN(xf))
        return (SFloat(z3.If(special, xf, m64)), SInt(z3.If(special, self.int_val(0), e)))


# ---------------------------------------------------------------------------------------------------

def _src_ast(fn):
    pre = getattr(fn, '__verif_ast__', None)
    if pre is not None:
        return pre
    src = textwrap.dedent(inspect.getsource(fn))
    try:
        tree = ast.parse(src)
        node = tree.body[0]
    except IndentationError:
        # docstring lines with less indentation than the def defeat dedent()
        tree = ast.parse('if 1:\n' + inspect.getsource(fn))
        node = tree.body[0].body[0]
    return node


def is_sym(v):
    return isinstance(v, (SInt, SFloat, SBool, Pow2))


def _has_sym(v):
    if is_sym(v) or isinstance(v, SObj):
        return True
    if isinstance(v, (list, tuple)):
        return any(_has_sym(x) for x in v)
    return False


class Frame:
    def __init__(self, fn, globs):
        self.fn, self.globs = fn, globs
        self.returns = []
        self.yields = []
        self.is_gen = False


class Interp:
    def __init__(self, ctx):
        self.ctx = ctx

    # ---------------- public
    def call(self, fn, args, kwargs=None, pc=None):
        """Encode fn(*args) and return an Outcome."""
        ctx = self.ctx
        n_r, n_s = len(ctx.raises), len(ctx.side)
        pc = z3.BoolVal(True) if pc is None else pc
        try:
            val = self._call_function(fn, list(args), dict(kwargs or {}), pc)
        except _Dead:
            val = None
        return Outcome(val, ctx.raises[n_r:], ctx.side[n_s:])

    # ---------------- function inlining
    def _call_function(self, fn, args, kwargs, pc):
        ctx = self.ctx
        if isinstance(fn, types.MethodType):
            args = [fn.__self__] + args
            fn = fn.__func__
        node = _src_ast(fn)
        if not isinstance(node, ast.FunctionDef):
            raise NotEncodable('not a function: %r' % (fn,))
        ctx.encoded.add('%s.%s' % (fn.__module__, fn.__qualname__))
        env = {}
        a = node.args
        params = [p.arg for p in a.args]
        defaults = [None] * (len(params) - len(a.defaults)) + list(a.defaults)
        for i, p in enumerate(params):
            if i < len(args):
                env[p] = args[i]
            elif p in kwargs:
                env[p] = kwargs.pop(p)
            elif defaults[i] is not None:
                env[p] = self.eval(defaults[i], {}, Frame(fn, fn.__globals__), pc)
            else:
                raise NotEncodable('missing argument %s of %s' % (p, fn.__name__))
        if a.kwarg:
            env[a.kwarg.arg] = dict(kwargs)
            kwargs = {}
        if a.vararg or kwargs:
            raise NotEncodable('unsupported signature of %s' % fn.__name__)
        fr = Frame(fn, fn.__globals__)
        fr.is_gen = any(isinstance(n, (ast.Yield, ast.YieldFrom)) for n in ast.walk(node))
        env2, pc2 = self.block(node.body, env, fr, pc)
        self.last_locals = env2
        if fr.is_gen:
            if all(z3.is_true(c) for c, _ in fr.yields):
                return [v for _, v in fr.yields]
            return CondList(fr.yields)
        rets = list(fr.returns)
        if env2 is not None and not z3.is_false(z3.simplify(pc2)):
            rets.append((pc2, None, self._heap_snapshot()))
        if not rets:
            if env2 is None:
                raise _Dead()
            return None
        # the heap seen by the caller is the merge of the heaps at the return points
        heap = rets[-1][2]
        for c, _, h in reversed(rets[:-1]):
            _, heap = self.merge_env(c, {}, h, {}, heap)
        ctx.heap = heap
        return self.merge_many([(c, v) for c, v, _ in rets])

    def _heap_snapshot(self):
        return {oid: {k: (list(v) if isinstance(v, list) else v) for k, v in at.items()} for oid, at in self.ctx.heap.items()}

    def _call_closure(self, clo, args, kwargs, pc):
        node = clo.node
        env = dict(clo.env)
        params = [p.arg for p in node.args.args]
        if len(args) + len(kwargs) != len(params):
            raise NotEncodable('closure call arity')
        for p, a in zip(params, args):
            env[p] = a
        env.update(kwargs)
        fr = Frame(clo.fr.fn, clo.fr.globs)
        env2, pc2 = self.block(node.body, env, fr, pc)
        rets = list(fr.returns)
        if env2 is not None and not z3.is_false(z3.simplify(pc2)):
            rets.append((pc2, None, self._heap_snapshot()))
        if not rets:
            if env2 is None:
                raise _Dead()
            return None
        heap = rets[-1][2]
        for c, _, h in reversed(rets[:-1]):
            _, heap = self.merge_env(c, {}, h, {}, heap)
        self.ctx.heap = heap
        return self.merge_many([(c, v) for c, v, _ in rets])

    def merge_many(self, rets):
        val = rets[-1][1]
        for c, v in reversed(rets[:-1]):
            val = self.merge(c, v, val)
        return val

    # ---------------- merging
    def merge(self, c, a, b):
        ctx = self.ctx
        if a is b:
            return a
        if not _has_sym(a) and not _has_sym(b):
            try:
                if type(a) is type(b) and a == b and not (isinstance(a, float) and (a == 0.0)):
                    return a
            except Exception:
                pass
        if isinstance(a, (tuple, list)) and isinstance(b, (tuple, list)) and len(a) == len(b):
            return type(a)(self.merge(c, x, y) for x, y in zip(a, b))
        if isinstance(a, SObj) and isinstance(b, SObj) and a.oid == b.oid:
            return a
        isf = lambda v: isinstance(v, (SFloat, float))
        isi = lambda v: isinstance(v, (SInt, int)) and not isinstance(v, bool)
        isb = lambda v: isinstance(v, (SBool, bool))
        if isb(a) and isb(b):
            return SBool(z3.If(c, ctx.lift_bool(a), ctx.lift_bool(b)))
        if isi(a) and isi(b):
            return SInt(z3.If(c, ctx.lift_int(a), ctx.lift_int(b)))
        if isf(a) and isf(b):
            return SFloat(z3.If(c, ctx.lift_float(a), ctx.lift_float(b)))
        if (isi(a) or isb(a)) and (isi(b) or isb(b)):
            return SInt(z3.If(c, ctx.lift_int(a), ctx.lift_int(b)))
        if isinstance(a, (bytes, bytearray)) and isinstance(b, (bytes, bytearray)) and len(a) == len(b):
            return [self.merge(c, x, y) for x, y in zip(a, b)]
        raise NotEncodable('cannot merge %r with %r' % (a, b))

    def merge_env(self, c, e1, h1, e2, h2):
        env = {}
        for k in set(e1) | set(e2):
            if k in e1 and k in e2:
                try:
                    env[k] = self.merge(c, e1[k], e2[k])
                except NotEncodable:
                    env[k] = _Poison(k)
            # a name bound in only one branch is dropped (using it later is an error in the source too)
        heap = {}
        for oid in set(h1) | set(h2):
            if oid in h1 and oid in h2:
                heap[oid] = {}
                for k in set(h1[oid]) | set(h2[oid]):
                    if k in h1[oid] and k in h2[oid]:
                        heap[oid][k] = self.merge(c, h1[oid][k], h2[oid][k])
            else:
                heap[oid] = dict(h1.get(oid) or h2.get(oid))
        return env, heap

    # ---------------- statements
    def block(self, stmts, env, fr, pc):
        ctx = self.ctx
        for s in stmts:
            n0 = len(ctx.raises)
            try:
                env, pc = self.stmt(s, env, fr, pc)
            except _Dead:
                return None, pc
            if env is None:
                return None, pc
            new = ctx.raises[n0:]
            if new:
                # paths that raised inside this statement do not continue
                pc = z3.And(pc, z3.Not(z3.Or(*[c for c, _ in new])))
                if z3.is_false(z3.simplify(pc)):
                    return None, pc
        return env, pc

    def _copy_state(self, env):
        e = {k: (list(v) if isinstance(v, list) else v) for k, v in env.items()}
        h = {oid: {k: (list(v) if isinstance(v, list) else v) for k, v in at.items()} for oid, at in self.ctx.heap.items()}
        return e, h

    def stmt(self, s, env, fr, pc):
        ctx = self.ctx
        if isinstance(s, ast.Expr):
            if isinstance(s.value, ast.Constant):
                return env, pc
            if isinstance(s.value, ast.YieldFrom):
                src = s.value.value
                if isinstance(src, ast.Call) and self.eval(src.func, env, fr, pc) is range:
                    args = []
                    for a_ in src.args:
                        if isinstance(a_, ast.Starred):
                            args.extend(self.eval(a_.value, env, fr, pc))
                        else:
                            args.append(self.eval(a_, env, fr, pc))
                    if any(is_sym(a) for a in args):
                        if len(args) != 1:
                            a0 = ctx.lift_int(args[0])
                            a1 = ctx.lift_int(args[1])
                            st = ctx.lift_int(args[2]) if len(args) == 3 else ctx.int_val(1)
                            ctx.raises.append((z3.And(pc, st == 0), 'ValueError'))
                            zero = ctx.int_val(0)
                            live = lambda v: z3.Or(z3.And(st > zero, v < a1), z3.And(st < zero, v > a1))
                            v = a0
                            for k in range(ctx.unwind):
                                fr.yields.append((z3.simplify(z3.And(pc, live(v))), SInt(v)))
                                v = v + st
                            ctx.side.append(z3.And(pc, live(v)))      # unwinding assertion
                            return env, pc
                        n = ctx.lift_int(args[0])
                        for k in range(ctx.unwind):
                            fr.yields.append((z3.simplify(z3.And(pc, n > ctx.int_val(k))), k))
                        ctx.side.append(z3.And(pc, n > ctx.int_val(ctx.unwind)))     # unwinding assertion
                        return env, pc
                    for x in range(*args):
                        fr.yields.append((z3.simplify(pc), x))
                    return env, pc
                it = self.eval(src, env, fr, pc)
                if isinstance(it, CondList):
                    fr.yields.extend((z3.simplify(z3.And(pc, c)), v) for c, v in it.items)
                else:
                    fr.yields.extend((z3.simplify(pc), v) for v in it)
                return env, pc
            if isinstance(s.value, ast.Yield):
                v = self.eval(s.value.value, env, fr, pc)
                fr.yields.append((z3.simplify(pc), v))
                return env, pc
            self.eval(s.value, env, fr, pc)
            return env, pc
        if isinstance(s, ast.Pass):
            return env, pc
        if isinstance(s, (ast.Assign, ast.AnnAssign)):
            if isinstance(s, ast.AnnAssign):
                if s.value is None:
                    return env, pc
                targets = [s.target]
            else:
                targets = s.targets
            v = self.eval(s.value, env, fr, pc)
            for t in targets:
                self.assign(t, v, env, fr, pc)
            return env, pc
        if isinstance(s, ast.AugAssign):
            cur = self.eval(_load(s.target), env, fr, pc)
            v = self.binop(s.op, cur, self.eval(s.value, env, fr, pc), pc)
            self.assign(s.target, v, env, fr, pc)
            return env, pc
        if isinstance(s, ast.Return):
            v = None if s.value is None else self.eval(s.value, env, fr, pc)
            fr.returns.append((pc, v, self._heap_snapshot()))
            return None, pc
        if isinstance(s, ast.Raise):
            name = 'Exception'
            if s.exc is not None:
                e = s.exc.func if isinstance(s.exc, ast.Call) else s.exc
                name = e.attr if isinstance(e, ast.Attribute) else getattr(e, 'id', 'Exception')
            ctx.raises.append((pc, name))
            return None, pc
        if isinstance(s, ast.Assert):
            t = self.eval(s.test, env, fr, pc)
            if is_sym(t):
                c = ctx.lift_bool(t)
                ctx.raises.append((z3.And(pc, z3.Not(c)), 'AssertionError'))
                return env, z3.And(pc, c)
            if not t:
                ctx.raises.append((pc, 'AssertionError'))
                return None, pc
            return env, pc
        if isinstance(s, ast.If):
            t = self.eval(s.test, env, fr, pc)
            if not is_sym(t):
                return self.block(s.body if t else s.orelse, env, fr, pc)
            c = z3.simplify(ctx.lift_bool(t))
            if z3.is_true(c):
                return self.block(s.body, env, fr, pc)
            if z3.is_false(c):
                return self.block(s.orelse, env, fr, pc)
            e1, h1 = self._copy_state(env)
            e2, h2 = self._copy_state(env)
            ctx.heap = h1
            r1, p1 = self.block(s.body, e1, fr, z3.And(pc, c))
            h1 = ctx.heap
            ctx.heap = h2
            r2, p2 = self.block(s.orelse, e2, fr, z3.And(pc, z3.Not(c)))
            h2 = ctx.heap
            if r1 is None and r2 is None:
                return None, pc
            if r1 is None:
                ctx.heap = h2
                return r2, p2
            if r2 is None:
                ctx.heap = h1
                return r1, p1
            # both fall through: path conditions may have been narrowed inside (asserts) - keep the disjunction
            env3, heap3 = self.merge_env(c, r1, h1, r2, h2)
            ctx.heap = heap3
            return env3, z3.Or(p1, p2)
        if isinstance(s, ast.For):
            it = self.eval(s.iter, env, fr, pc)
            if is_sym(it) or isinstance(it, SObj):
                raise NotEncodable('for over symbolic iterable')
            for x in list(it):
                self.assign(s.target, x, env, fr, pc)
                env, pc = self.block(s.body, env, fr, pc)
                if env is None:
                    return None, pc
            return self.block(s.orelse, env, fr, pc)
        if isinstance(s, ast.While):
            n = 0
            while True:
                t = self.eval(s.test, env, fr, pc)
                if not is_sym(t):
                    if not t:
                        return env, pc
                    n += 1
                    if n > 4096:
                        raise NotEncodable('concrete loop too long')
                    env, pc = self.block(s.body, env, fr, pc)
                    if env is None:
                        return None, pc
                    continue
                # symbolic guard: unroll as nested ifs up to ctx.unwind, with an unwinding assertion
                return self._unroll(s, env, fr, pc, ctx.unwind)
        if isinstance(s, ast.Try):
            return self._try(s, env, fr, pc)
        if isinstance(s, (ast.Import, ast.ImportFrom, ast.Global)):
            return env, pc
        if isinstance(s, ast.FunctionDef):
            env[s.name] = _Closure(s, env, fr)
            return env, pc
        raise NotEncodable('statement %s' % type(s).__name__)

    def _unroll(self, s, env, fr, pc, k):
        ctx = self.ctx
        t = self.eval(s.test, env, fr, pc)
        c = ctx.lift_bool(t) if is_sym(t) else z3.BoolVal(bool(t))
        if k == 0:
            ctx.side.append(z3.And(pc, c))      # unwinding assertion
            return env, z3.And(pc, z3.Not(c))
        body = ast.If(test=s.test, body=list(s.body) + [_Unroll(s, k - 1)], orelse=[])
        return self.stmt_if_unroll(body, env, fr, pc)

    def stmt_if_unroll(self, ifnode, env, fr, pc):
        # evaluate the If whose body ends with an _Unroll marker
        marker = ifnode.body[-1]
        real_body = ifnode.body[:-1]
        ctx = self.ctx
        t = self.eval(ifnode.test, env, fr, pc)
        c = z3.simplify(ctx.lift_bool(t)) if is_sym(t) else z3.BoolVal(bool(t))
        if z3.is_false(c):
            return env, pc
        e1, h1 = self._copy_state(env)
        e2, h2 = self._copy_state(env)
        ctx.heap = h1
        r1, p1 = self.block(real_body, e1, fr, z3.And(pc, c))
        if r1 is not None:
            r1, p1 = self._unroll(marker.loop, r1, fr, p1, marker.k)
        h1 = ctx.heap
        ctx.heap = h2
        r2, p2 = e2, z3.And(pc, z3.Not(c))
        if r1 is None:
            return r2, p2
        env3, heap3 = self.merge_env(c, r1, h1, r2, h2)
        ctx.heap = heap3
        return env3, z3.Or(p1, p2)

    def _try(self, s, env, fr, pc):
        ctx = self.ctx
        if s.finalbody:
            raise NotEncodable('try/finally')
        n0 = len(ctx.raises)
        env_before, heap_before = self._copy_state(env)
        env1, pc1 = self.block(s.body, env, fr, pc)
        new = ctx.raises[n0:]
        del ctx.raises[n0:]
        remaining = list(new)
        outs = []
        if env1 is not None:
            if s.orelse:
                env1, pc1 = self.block(s.orelse, env1, fr, pc1)
        for h in s.handlers:
            names = _handler_names(h)
            caught = [(c, n) for c, n in remaining if _exc_match(n, names)]
            remaining = [(c, n) for c, n in remaining if not _exc_match(n, names)]
            if not caught:
                continue
            hc = z3.Or(*[c for c, _ in caught])
            # handler runs in the pre-try state: sound when the try body is ONE statement that raises before it has any effect
            simple = all(isinstance(st, (ast.Raise, ast.Return, ast.Pass, ast.Expr)) for st in h.body)
            if not simple and len(s.body) != 1:
                raise NotEncodable('except handler with control flow after a multi-statement try body')
            saved_heap = ctx.heap
            ctx.heap = heap_before
            he, hp = self.block(h.body, dict(env_before), fr, z3.And(pc, hc) if False else hc)
            if he is None:
                ctx.heap = saved_heap
            else:
                # handler falls through: merge its state with the normal path's
                if env1 is None:
                    env1, pc1 = he, hp
                else:
                    env1, heap3 = self.merge_env(hc, he, ctx.heap, env1, saved_heap)
                    ctx.heap = heap3
                    pc1 = z3.Or(pc1, hp)
        ctx.raises.extend(remaining)
        return env1, pc1

    def assign(self, t, v, env, fr, pc):
        if isinstance(t, ast.Name):
            env[t.id] = v
        elif isinstance(t, (ast.Tuple, ast.List)):
            if not isinstance(v, (tuple, list)) or len(v) != len(t.elts):
                raise NotEncodable('unpack')
            for tt, vv in zip(t.elts, v):
                self.assign(tt, vv, env, fr, pc)
        elif isinstance(t, ast.Attribute):
            o = self.eval(t.value, env, fr, pc)
            if not isinstance(o, SObj):
                raise NotEncodable('attribute store on non-model object')
            self.ctx.heap[o.oid][t.attr] = v
        elif isinstance(t, ast.Subscript):
            o = self.eval(t.value, env, fr, pc)
            i = self.eval(t.slice, env, fr, pc)
            if isinstance(o, list) and isinstance(i, int):
                o[i] = v
            else:
                raise NotEncodable('subscript store')
        else:
            raise NotEncodable('assign target %s' % type(t).__name__)

    # ---------------- expressions
    def eval(self, e, env, fr, pc):
        ctx = self.ctx
        if isinstance(e, ast.Constant):
            return e.value
        if isinstance(e, ast.Name):
            if e.id in env:
                v = env[e.id]
                if isinstance(v, _Poison):
                    raise NotEncodable('use of unmergeable variable %s' % e.id)
                return v
            if e.id in fr.globs:
                return fr.globs[e.id]
            import builtins
            if hasattr(builtins, e.id):
                return getattr(builtins, e.id)
            raise NotEncodable('unbound name %s' % e.id)
        if isinstance(e, ast.Attribute):
            o = self.eval(e.value, env, fr, pc)
            if isinstance(o, _Super):
                mro = o.obj.cls.__mro__
                for k in mro[mro.index(o.owner) + 1:]:
                    if e.attr in vars(k):
                        m = vars(k)[e.attr]
                        if isinstance(m, types.FunctionType):
                            return _Bound(m, o.obj)
                        return m
                raise NotEncodable('super().%s' % e.attr)
            if isinstance(o, SObj):
                at = ctx.heap[o.oid]
                if e.attr in at:
                    return at[e.attr]
                m = getattr(o.cls, e.attr, None)
                if isinstance(m, property):
                    return self._call_function(m.fget, [o], {}, pc)
                if m is not None:
                    if isinstance(m, types.FunctionType):
                        return _Bound(m, o)
                    return m
                raise NotEncodable('attribute %s of model object' % e.attr)
            if isinstance(o, SChar) and e.attr == 'encode':
                return _CharMethod('encode', o)
            if isinstance(o, _EncodedChar) and e.attr == 'decode':
                return _CharMethod('decode', o)
            if is_sym(o):
                raise NotEncodable('attribute %s of symbolic value' % e.attr)
            if isinstance(o, str) and e.attr == 'join':
                return _CharMethod('join', o)
            return getattr(o, e.attr)
        if isinstance(e, ast.BinOp):
            return self.binop(e.op, self.eval(e.left, env, fr, pc), self.eval(e.right, env, fr, pc), pc)
        if isinstance(e, ast.UnaryOp):
            v = self.eval(e.operand, env, fr, pc)
            return self.unop(e.op, v)
        if isinstance(e, ast.BoolOp):
            # short-circuit: an operand is evaluated (and may raise) only on the paths where the earlier operands did not decide the result
            vals = []
            cur = pc
            is_and = isinstance(e.op, ast.And)
            for x in e.values:
                v = self.eval(x, env, fr, cur)
                vals.append(v)
                if is_sym(v):
                    c = ctx.lift_bool(v)
                    cur = z3.And(cur, c if is_and else z3.Not(c))
                elif bool(v) != is_and:
                    break
            return self.boolop(e.op, vals)
        if isinstance(e, ast.Compare):
            left = self.eval(e.left, env, fr, pc)
            res = None
            for op, r in zip(e.ops, e.comparators):
                right = self.eval(r, env, fr, pc)
                c = self.compare(op, left, right)
                res = c if res is None else self.boolop(ast.And(), [res, c])
                left = right
            return res
        if isinstance(e, ast.IfExp):
            t = self.eval(e.test, env, fr, pc)
            if not is_sym(t):
                return self.eval(e.body if t else e.orelse, env, fr, pc)
            c = ctx.lift_bool(t)
            a = self.eval(e.body, env, fr, z3.And(pc, c))
            b = self.eval(e.orelse, env, fr, z3.And(pc, z3.Not(c)))
            return self.merge(c, a, b)
        if isinstance(e, ast.Tuple):
            return tuple(self.eval(x, env, fr, pc) for x in e.elts)
        if isinstance(e, ast.List):
            return [self.eval(x, env, fr, pc) for x in e.elts]
        if isinstance(e, ast.Subscript):
            o = self.eval(e.value, env, fr, pc)
            if isinstance(e.slice, ast.Slice):
                lo = None if e.slice.lower is None else self.eval(e.slice.lower, env, fr, pc)
                hi = None if e.slice.upper is None else self.eval(e.slice.upper, env, fr, pc)
                st = None if e.slice.step is None else self.eval(e.slice.step, env, fr, pc)
                if any(is_sym(x) for x in (lo, hi, st)):
                    raise NotEncodable('symbolic slice bounds')
                return o[lo:hi:st]
            i = self.eval(e.slice, env, fr, pc)
            return self.subscript(o, i, pc)
        if isinstance(e, ast.Call):
            return self.call_expr(e, env, fr, pc)
        if isinstance(e, ast.JoinedStr):
            vals = e.values
            if (len(vals) == 3 and isinstance(vals[0], ast.Constant) and vals[0].value == '&#' and isinstance(vals[2], ast.Constant)
                    and vals[2].value == ';' and isinstance(vals[1], ast.FormattedValue)):
                fmt = vals[1].format_spec
                spec = fmt.values[0].value if fmt is not None and fmt.values and isinstance(fmt.values[0], ast.Constant) else ''
                if spec in ('', 'd', '03d'):
                    v = self.eval(vals[1].value, env, fr, pc)
                    if is_sym(v):
                        return (TOK_NUMREF, v)       # model: a decimal numeric character reference to v
            return '<fstring>'
        if isinstance(e, ast.Dict):
            return {self.eval(k, env, fr, pc): self.eval(v, env, fr, pc) for k, v in zip(e.keys, e.values)}
        raise NotEncodable('expression %s' % type(e).__name__)

    def subscript(self, o, i, pc):
        ctx = self.ctx
        if isinstance(o, SObj):
            gi = getattr(o.cls, '__getitem__', None)
            if gi is None:
                raise NotEncodable('subscript of model object')
            return self._call_function(gi, [o, i], {}, pc)
        if not is_sym(i):
            if isinstance(o, (list, tuple, bytes, bytearray)) and isinstance(i, int) and not (-len(o) <= i < len(o)):
                ctx.raises.append((pc, 'IndexError'))
                raise _Dead()
            if isinstance(o, dict) and i not in o:
                ctx.raises.append((pc, 'KeyError'))
                raise _Dead()
            return o[i]
        ie = ctx.lift_int(i)
        if isinstance(o, dict):
            items = list(o.items())
            hit = z3.Or(*[ie == ctx.lift_int(k) for k, _ in items]) if items else z3.BoolVal(False)
            ctx.raises.append((z3.And(pc, z3.Not(hit)), 'KeyError'))
            val = items[-1][1]
            for k, v in reversed(items[:-1]):
                val = self.merge(ie == ctx.lift_int(k), v, val)
            return val
        if isinstance(o, (list, tuple, bytes, bytearray)):
            n = len(o)
            ctx.raises.append((z3.And(pc, z3.Or(ie >= ctx.int_val(n), ie < ctx.int_val(-n))), 'IndexError'))
            if n == 0:
                return 0
            val = o[n - 1]
            for k in range(n - 2, -1, -1):
                val = self.merge(z3.Or(ie == ctx.int_val(k), ie == ctx.int_val(k - n)), o[k], val)
            return val
        raise NotEncodable('symbolic subscript of %r' % type(o))

    # ---------------- operators
    def unop(self, op, v):
        ctx = self.ctx
        if not is_sym(v):
            return {ast.USub: lambda x: -x, ast.UAdd: lambda x: +x, ast.Not: lambda x: not x, ast.Invert: lambda x: ~x}[type(op)](v)
        if isinstance(op, ast.Not):
            return SBool(z3.Not(ctx.lift_bool(v)))
        if isinstance(op, ast.USub):
            if isinstance(v, SFloat):
                return SFloat(z3.fpNeg(v.e) if ctx.float_mode == 'fp' else -v.e)
            e = ctx.lift_int(v)
            if ctx.int_mode == 'bv':
                ctx.side.append(e == ctx.int_val(-(1 << (ctx.W - 1))))
            return SInt(-e)
        if isinstance(op, ast.UAdd):
            return v
        if isinstance(op, ast.Invert):
            e = ctx.lift_int(v)
            return SInt(~e if ctx.int_mode == 'bv' else -e - 1)
        raise NotEncodable('unary op')

    def boolop(self, op, vals):
        ctx = self.ctx
        # Python returns an operand, not a bool; only the truth value is used by the kernels encoded here
        if not any(is_sym(v) for v in vals):
            if isinstance(op, ast.And):
                r = True
                for v in vals:
                    r = v
                    if not v:
                        break
                return r
            r = False
            for v in vals:
                r = v
                if v:
                    break
            return r
        bs = [ctx.lift_bool(v) for v in vals]
        return SBool(z3.And(*bs) if isinstance(op, ast.And) else z3.Or(*bs))

    def compare(self, op, a, b):
        ctx = self.ctx
        if isinstance(op, (ast.In, ast.NotIn)):
            if is_sym(b):
                raise NotEncodable('in symbolic container')
            if not is_sym(a):
                r = a in b
                return r if isinstance(op, ast.In) else not r
            items = list(b)
            ae = ctx.lift_int(a)
            c = z3.Or(*[ae == ctx.lift_int(k) for k in items if isinstance(k, int)]) if items else z3.BoolVal(False)
            return SBool(c if isinstance(op, ast.In) else z3.Not(c))
        if isinstance(op, (ast.Is, ast.IsNot)):
            if is_sym(a) or is_sym(b):
                # a symbolic number is never None
                r = False
            else:
                r = a is b
            return r if isinstance(op, ast.Is) else not r
        if not is_sym(a) and not is_sym(b):
            return {ast.Eq: lambda x, y: x == y, ast.NotEq: lambda x, y: x != y, ast.Lt: lambda x, y: x < y,
                    ast.LtE: lambda x, y: x <= y, ast.Gt: lambda x, y: x > y, ast.GtE: lambda x, y: x >= y}[type(op)](a, b)
        if (a is None) or (b is None):
            return isinstance(op, ast.NotEq)
        isfl = isinstance(a, (SFloat, float)) or isinstance(b, (SFloat, float))
        if isfl:
            x, y = ctx.lift_float(a), ctx.lift_float(b)
            if ctx.float_mode == 'fp':
                f = {ast.Eq: z3.fpEQ, ast.NotEq: z3.fpNEQ, ast.Lt: z3.fpLT, ast.LtE: z3.fpLEQ, ast.Gt: z3.fpGT, ast.GtE: z3.fpGEQ}[type(op)]
                return SBool(f(x, y))
        elif isinstance(a, (SBool, bool)) and isinstance(b, (SBool, bool)):
            x, y = ctx.lift_bool(a), ctx.lift_bool(b)
            if isinstance(op, ast.Eq):
                return SBool(x == y)
            if isinstance(op, ast.NotEq):
                return SBool(x != y)
            x, y = ctx.lift_int(a), ctx.lift_int(b)
        else:
            x, y = ctx.lift_int(a), ctx.lift_int(b)
        f = {ast.Eq: lambda p, q: p == q, ast.NotEq: lambda p, q: p != q, ast.Lt: lambda p, q: p < q,
             ast.LtE: lambda p, q: p <= q, ast.Gt: lambda p, q: p > q, ast.GtE: lambda p, q: p >= q}[type(op)]
        return SBool(f(x, y))

    def binop(self, op, a, b, pc):
        ctx = self.ctx
        if not is_sym(a) and not is_sym(b):
            if isinstance(op, ast.Div) and b == 0:
                ctx.raises.append((pc, 'ZeroDivisionError'))
                return 0.0
            if isinstance(a, list) or isinstance(b, list):
                if isinstance(op, ast.Add):
                    return list(a) + list(b)
                if isinstance(op, ast.Mult):
                    return list(a) * b if isinstance(a, list) else a * list(b)
            import operator as o
            f = {ast.Add: o.add, ast.Sub: o.sub, ast.Mult: o.mul, ast.Div: o.truediv, ast.FloorDiv: o.floordiv, ast.Mod: o.mod,
                 ast.Pow: o.pow, ast.LShift: o.lshift, ast.RShift: o.rshift, ast.BitAnd: o.and_, ast.BitOr: o.or_, ast.BitXor: o.xor}[type(op)]
            return f(a, b)
        # power-of-two powers
        if isinstance(op, ast.Pow):
            if isinstance(a, int) and not isinstance(a, bool) and a > 0 and (a & (a - 1)) == 0 and isinstance(b, (SInt,)):
                lg = a.bit_length() - 1
                return Pow2(SInt(ctx.lift_int(b) * ctx.int_val(lg)))
            if isinstance(a, float) and a > 0 and math.frexp(a)[0] == 0.5 and isinstance(b, SInt):
                lg = math.frexp(a)[1] - 1
                return Pow2(SInt(ctx.lift_int(b) * ctx.int_val(lg)))
            raise NotEncodable('symbolic power')
        if isinstance(a, Pow2) or isinstance(b, Pow2):
            return self._pow2_arith(op, a, b, pc)
        isfl = isinstance(a, (SFloat, float)) or isinstance(b, (SFloat, float)) or isinstance(op, ast.Div)
        if isfl:
            if isinstance(op, (ast.LShift, ast.RShift, ast.BitAnd, ast.BitOr, ast.BitXor)):
                raise NotEncodable('bit operation on float')
            if isinstance(op, ast.Div):
                for v in (a, b):
                    if isinstance(v, SInt) and ctx.float_mode == 'fp' and ctx.int_mode == 'bv':
                        lim = ctx.int_val(1 << 53)
                        ctx.side.append(z3.And(pc, z3.Or(v.e > lim, v.e < -lim)))
            x, y = ctx.lift_float(a), ctx.lift_float(b)
            if ctx.float_mode == 'fp':
                if isinstance(op, ast.Add):
                    return SFloat(z3.fpAdd(RNE, x, y))
                if isinstance(op, ast.Sub):
                    return SFloat(z3.fpSub(RNE, x, y))
                if isinstance(op, ast.Mult):
                    return SFloat(z3.fpMul(RNE, x, y))
                if isinstance(op, ast.Div):
                    ctx.raises.append((z3.And(pc, z3.fpIsZero(y)), 'ZeroDivisionError'))
                    return SFloat(z3.fpDiv(RNE, x, y))
                raise NotEncodable('float op %s' % type(op).__name__)
            if isinstance(op, ast.Add):
                return SFloat(x + y)
            if isinstance(op, ast.Sub):
                return SFloat(x - y)
            if isinstance(op, ast.Mult):
                return SFloat(x * y)
            if isinstance(op, ast.Div):
                ctx.raises.append((z3.And(pc, y == 0), 'ZeroDivisionError'))
                return SFloat(x / y)
            raise NotEncodable('real op %s' % type(op).__name__)
        x, y = ctx.lift_int(a), ctx.lift_int(b)
        if ctx.int_mode == 'bv':
            if isinstance(op, ast.Add):
                ctx.side.append(z3.And(pc, z3.Not(z3.And(z3.BVAddNoOverflow(x, y, True), z3.BVAddNoUnderflow(x, y)))))
                return SInt(x + y)
            if isinstance(op, ast.Sub):
                ctx.side.append(z3.And(pc, z3.Not(z3.And(z3.BVSubNoOverflow(x, y), z3.BVSubNoUnderflow(x, y, True)))))
                return SInt(x - y)
            if isinstance(op, ast.Mult):
                ctx.side.append(z3.And(pc, z3.Not(z3.And(z3.BVMulNoOverflow(x, y, True), z3.BVMulNoUnderflow(x, y)))))
                return SInt(x * y)
            if isinstance(op, ast.BitAnd):
                return SInt(x & y)
            if isinstance(op, ast.BitOr):
                return SInt(x | y)
            if isinstance(op, ast.BitXor):
                return SInt(x ^ y)
            if isinstance(op, ast.RShift):
                ctx.raises.append((z3.And(pc, y < 0), 'ValueError'))
                return SInt(x >> z3.If(y > ctx.W - 1, ctx.int_val(ctx.W - 1), y))
            if isinstance(op, ast.LShift):
                ctx.raises.append((z3.And(pc, y < 0), 'ValueError'))
                r = x << y
                ctx.side.append(z3.And(pc, z3.Or(z3.UGE(y, ctx.int_val(ctx.W)), (r >> y) != x)))
                return SInt(r)
            if isinstance(op, ast.FloorDiv):
                ctx.raises.append((z3.And(pc, y == 0), 'ZeroDivisionError'))
                q = x / y       # signed, truncating
                adj = z3.And(z3.SRem(x, y) != 0, (x < 0) != (y < 0))
                return SInt(z3.If(adj, q - 1, q))
            if isinstance(op, ast.Mod):
                ctx.raises.append((z3.And(pc, y == 0), 'ZeroDivisionError'))
                r = z3.SRem(x, y)
                return SInt(z3.If(z3.And(r != 0, (r < 0) != (y < 0)), r + y, r))
            raise NotEncodable('int op %s' % type(op).__name__)
        # unbounded Int model
        if isinstance(op, ast.Add):
            return SInt(x + y)
        if isinstance(op, ast.Sub):
            return SInt(x - y)
        if isinstance(op, ast.Mult):
            return SInt(x * y)
        if isinstance(op, ast.FloorDiv):
            ctx.raises.append((z3.And(pc, y == 0), 'ZeroDivisionError'))
            # z3 Int division is Euclidean; Python's is floor
            q = x / y
            return SInt(z3.If(z3.And(y < 0, x % y != 0), q + 1, q) if not isinstance(b, int) or b < 0 else q)
        if isinstance(op, ast.Mod):
            ctx.raises.append((z3.And(pc, y == 0), 'ZeroDivisionError'))
            r = x % y
            return SInt(z3.If(z3.And(y < 0, r != 0), r + y, r) if not isinstance(b, int) or b < 0 else r)
        if isinstance(op, (ast.RShift, ast.LShift)) and isinstance(b, int) and b >= 0:
            return SInt(x / (1 << b)) if isinstance(op, ast.RShift) else SInt(x * (1 << b))
        if isinstance(op, ast.BitAnd) and isinstance(b, int) and b >= 0:
            return SInt(_and_const_int(x, b))
        if isinstance(op, ast.BitAnd) and isinstance(a, int) and a >= 0:
            return SInt(_and_const_int(y, a))
        raise NotEncodable('Int-model op %s' % type(op).__name__)

    def _pow2_arith(self, op, a, b, pc):
        ctx = self.ctx
        if isinstance(b, Pow2) and isinstance(op, ast.Mult):
            r, ovf = ctx.ldexp(a, b.k, pc)
        elif isinstance(a, Pow2) and isinstance(op, ast.Mult):
            r, ovf = ctx.ldexp(b, a.k, pc)
        elif isinstance(b, Pow2) and isinstance(op, ast.Div):
            k = ctx.lift_int(b.k)
            r, ovf = ctx.ldexp(a, SInt(-k), pc)
        else:
            raise NotEncodable('power-of-two arithmetic')
        # the power itself must be a representable float/int->float (|k| <= 1023), else Python raises OverflowError or rounds 2**k
        k = ctx.lift_int(a.k if isinstance(a, Pow2) else b.k)
        ctx.side.append(z3.And(pc, z3.Or(k > ctx.int_val(1023), k < ctx.int_val(-1022))))
        return r

    # ---------------- calls
    def call_expr(self, e, env, fr, pc):
        ctx = self.ctx
        f = self.eval(e.func, env, fr, pc)
        # logging and formatting: no effect on the outcome
        mod = getattr(f, '__module__', None) or ''
        if mod.startswith('logging') or (isinstance(f, types.MethodType) and type(f.__self__).__module__.startswith('logging')):
            return None
        if isinstance(e.func, ast.Attribute) and e.func.attr == 'format' and isinstance(self._safe_const(e.func.value), str):
            return '<formatted>'
        args = []
        for a in e.args:
            if isinstance(a, ast.Starred):
                args.extend(self.eval(a.value, env, fr, pc))
            else:
                args.append(self.eval(a, env, fr, pc))
        kwargs = {k.arg: self.eval(k.value, env, fr, pc) for k in e.keywords}
        if f in ctx.extra_calls:
            return ctx.extra_calls[f](self, args, kwargs, pc)
        if f is super:
            if args:
                owner, obj = args[0], args[1]
            else:
                obj = env.get('self')
                qn = getattr(fr.fn, '__qualname__', '')
                owner = fr.globs.get(qn.split('.')[0]) if '.' in qn else None
            if not isinstance(obj, SObj) or owner is None:
                raise NotEncodable('super() outside a model object method')
            return _Super(owner, obj)
        if isinstance(f, _Bound) and f.fn in ctx.extra_calls:
            return ctx.extra_calls[f.fn](self, [f.obj] + args, kwargs, pc)
        if f is type and len(args) == 1 and not kwargs:
            v = args[0]
            if isinstance(v, SBool):
                return bool
            if isinstance(v, SInt):
                return int
            if isinstance(v, SFloat):
                return float
            if isinstance(v, SObj):
                return v.cls
            return type(v)
        if isinstance(f, _Bound):
            return self._call_function(f.fn, [f.obj] + args, kwargs, pc)
        if getattr(f, '__objclass__', None) is object or f is object.__init__:
            return None
        if isinstance(f, _Closure):
            return self._call_closure(f, args, kwargs, pc)
        sym = any(_has_sym(a) for a in args) or any(_has_sym(v) for v in kwargs.values())
        if isinstance(f, _CharMethod):
            if f.name == 'encode':
                if args[:2] != ['ascii', 'xmlcharrefreplace']:
                    raise NotEncodable('str.encode model only for (ascii, xmlcharrefreplace)')
                cp = f.obj.e
                # CPython: code points < 128 encode to themselves, all others (surrogates included) to &#N;
                kind = z3.If(cp < ctx.int_val(128), ctx.int_val(TOK_LITERAL), ctx.int_val(TOK_NUMREF))
                return _EncodedChar((SInt(kind), SInt(cp)))
            if f.name == 'decode':
                return f.obj.tok
            if f.name == 'join':
                if f.obj != '':
                    raise NotEncodable('str.join with a separator')
                return list(args[0])
        if f is ord and sym:
            return SInt(ctx.lift_int(args[0]))
        if isinstance(f, types.BuiltinMethodType) and isinstance(getattr(f, '__self__', None), list) and f.__name__ in ('append', 'extend'):
            return f(*args)
        if f is math.ldexp:
            r, ovf = ctx.ldexp(args[0], args[1], pc)
            ctx.raises.append((z3.And(pc, ovf), 'OverflowError'))
            return r
        if f is math.frexp:
            if not sym:
                return math.frexp(*args)
            return ctx.frexp(args[0], pc)
        if f is math.floor and sym:
            x = ctx.lift_float(args[0])
            if ctx.float_mode == 'real':
                return SInt(z3.ToInt(x)) if ctx.int_mode == 'int' else _na('floor in BV/Real mix')
            return self._float_to_int(x, z3.RTN(), pc)
        if f is math.log10 and sym:
            if ctx.float_mode != 'real':
                raise NotEncodable('log10 in FP mode')
            x = ctx.lift_float(args[0])
            ctx.raises.append((z3.And(pc, x <= 0), 'ValueError'))
            return SFloat(ctx.uf_log10(x))
        if f is float:
            if not sym:
                return float(*args)
            return SFloat(ctx.lift_float(args[0]))
        if f is int:
            if not sym:
                return int(*args)
            v = args[0]
            if isinstance(v, (SInt, SBool)):
                return SInt(ctx.lift_int(v))
            x = ctx.lift_float(v)
            if ctx.float_mode == 'real':
                if ctx.int_mode != 'int':
                    raise NotEncodable('int(real) in BV mode')
                t = z3.ToInt(x)
                return SInt(z3.If(z3.And(x < 0, z3.ToReal(t) != x), t + 1, t))
            return self._float_to_int(x, RTZ, pc)
        if f is bool:
            if not sym:
                return bool(*args)
            return SBool(ctx.lift_bool(args[0]))
        if f is abs and sym:
            v = args[0]
            if isinstance(v, SFloat):
                return SFloat(z3.fpAbs(v.e) if ctx.float_mode == 'fp' else z3.If(v.e < 0, -v.e, v.e))
            x = ctx.lift_int(v)
            return SInt(z3.If(x < 0, -x, x))
        if f in (min, max) and sym:
            vals = list(args[0]) if len(args) == 1 else args
            r = vals[0]
            for v in vals[1:]:
                c = self.compare(ast.Lt() if f is min else ast.Gt(), v, r)
                r = self.merge(ctx.lift_bool(c), v, r) if is_sym(c) else (v if c else r)
            return r
        if f is list and len(args) == 1 and isinstance(args[0], CondList):
            return args[0]
        if f is len and isinstance(args[0], CondList):
            tot = ctx.int_val(0)
            for c, _ in args[0].items:
                tot = tot + z3.If(c, ctx.int_val(1), ctx.int_val(0))
            return SInt(tot)
        if f is len:
            v = args[0]
            if isinstance(v, SObj):
                ln = getattr(v.cls, '__len__', None)
                return self._call_function(ln, [v], {}, pc)
            return len(v)
        if f is isinstance:
            v, t = args
            if isinstance(v, SInt):
                return issubclass(int, t) if isinstance(t, type) else any(issubclass(int, x) for x in t)
            if isinstance(v, SFloat):
                return issubclass(float, t) if isinstance(t, type) else any(issubclass(float, x) for x in t)
            if isinstance(v, SBool):
                return issubclass(bool, t) if isinstance(t, type) else any(issubclass(bool, x) for x in t)
            if isinstance(v, SObj):
                return issubclass(v.cls, t)
            return isinstance(v, t)
        if f is struct.unpack or (isinstance(f, types.BuiltinMethodType) and isinstance(getattr(f, '__self__', None), struct.Struct) and f.__name__ == 'unpack'):
            if f is struct.unpack:
                fmt, by = args
            else:
                fmt, by = f.__self__.format, args[0]
            if not _has_sym(by):
                return struct.unpack(fmt, bytes(by))
            return self._struct_unpack(fmt, by, pc)
        if f is bytes and not sym:
            return bytes(*args)
        if f is range and not sym:
            return range(*args)
        if isinstance(f, type) and f is not type and not sym and f.__module__ == 'builtins':
            return f(*args, **kwargs)
        if not sym and not isinstance(f, (types.FunctionType, types.MethodType)):
            return f(*args, **kwargs)
        if isinstance(f, (types.FunctionType, types.MethodType)):
            if not sym and not (f.__module__ or '').startswith('TotalDepth'):
                return f(*args, **kwargs)
            return self._call_function(f, args, kwargs, pc)
        if isinstance(f, type):
            # instantiate a TotalDepth class symbolically: run __init__ on a fresh model object
            o = ctx.new_obj(f, {})
            init = getattr(f, '__init__', None)
            if isinstance(init, types.FunctionType):
                self._call_function(init, [o] + args, kwargs, pc)
            return o
        raise NotEncodable('call of %r' % (f,))

    def _safe_const(self, node):
        return node.value if isinstance(node, ast.Constant) else None

    def _float_to_int(self, x, rm, pc):
        ctx = self.ctx
        if ctx.int_mode != 'bv':
            raise NotEncodable('float->int in Int mode')
        lim = z3.FPVal(2.0 ** (ctx.W - 2), F64)
        ctx.side.append(z3.And(pc, z3.Not(z3.And(z3.fpLT(x, lim), z3.fpGT(x, z3.fpNeg(lim))))))
        return SInt(z3.fpToSBV(rm, x, z3.BitVecSort(ctx.W)))

    def _struct_unpack(self, fmt, by, pc):
        ctx = self.ctx
        if ctx.int_mode != 'bv':
            raise NotEncodable('struct in Int mode')
        order = '>'
        if fmt and fmt[0] in '<>!=@':
            order, fmt = fmt[0], fmt[1:]
        if order not in '>!':
            raise NotEncodable('struct byte order ' + order)
        out = []
        pos = 0
        by = list(by)
        sizes = dict(b=1, B=1, h=2, H=2, i=4, I=4, l=4, L=4, q=8, Q=8, f=4, d=8)
        need = sum(sizes[c] for c in fmt)
        if need != len(by):
            ctx.raises.append((pc, 'error'))
            return tuple([0] * len(fmt))
        for c in fmt:
            n = sizes[c]
            bvs = [z3.Extract(7, 0, ctx.lift_int(x)) for x in by[pos:pos + n]]
            word = z3.Concat(*bvs) if n > 1 else bvs[0]
            pos += n
            if c in 'bhilq':
                out.append(ctx.from_bv(word, True))
            elif c in 'BHILQ':
                if n * 8 >= ctx.W:
                    raise NotEncodable('unsigned %d-bit in %d-bit int model' % (n * 8, ctx.W))
                out.append(ctx.from_bv(word, False))
            elif c == 'f':
                out.append(SFloat(z3.fpToFP(RNE, z3.fpBVToFP(word, F32), F64)))
            elif c == 'd':
                out.append(SFloat(z3.fpBVToFP(word, F64)))
        return tuple(out)


class _Closure:
    """A nested def: evaluated by inlining with the defining environment visible (read-only)."""
    def __init__(self, node, env, fr):
        self.node, self.env, self.fr = node, env, fr


class _CharMethod:
    def __init__(self, name, obj):
        self.name, self.obj = name, obj


class _EncodedChar:
    def __init__(self, tok):
        self.tok = tok


class _Super:
    def __init__(self, owner, obj):
        self.owner, self.obj = owner, obj


class _Bound:
    def __init__(self, fn, obj):
        self.fn, self.obj = fn, obj


class _Poison:
    def __init__(self, name):
        self.name = name


class _Unroll(ast.stmt):
    def __init__(self, loop, k):
        self.loop, self.k = loop, k
    _fields = ()


def _load(t):
    import copy
    t2 = copy.copy(t)
    t2.ctx = ast.Load()
    return t2


def _na(msg):
    raise NotEncodable(msg)


def _handler_names(h):
    if h.type is None:
        return None
    if isinstance(h.type, ast.Tuple):
        return [getattr(x, 'attr', getattr(x, 'id', '')) for x in h.type.elts]
    return [getattr(h.type, 'attr', getattr(h.type, 'id', ''))]


_EXC_PARENTS = {'KeyError': ['LookupError', 'Exception'], 'IndexError': ['LookupError', 'Exception'],
                'ZeroDivisionError': ['ArithmeticError', 'Exception'], 'OverflowError': ['ArithmeticError', 'Exception'],
                'ValueError': ['Exception'], 'AssertionError': ['Exception'], 'error': ['Exception']}


def _exc_match(name, names):
    if names is None:
        return True
    return name in names or any(p in names for p in _EXC_PARENTS.get(name, ['Exception']))


def _and_const_int(x, mask):
    tot = z3.IntVal(0)
    i = 0
    while mask >> i:
        if (mask >> i) & 1:
            j = i
            while (mask >> j) & 1:
                j += 1
            tot = tot + ((x / (1 << i)) % (1 << (j - i))) * (1 << i)
            i = j
        else:
            i += 1
    return tot


# ---------------------------------------------------------------------------------------------------
# solving helpers

def _fresh(assertions, timeout_s):
    """One query = one fresh solver (z3's incremental core is far slower on FP/BV than its one-shot strategy)."""
    s = z3.Solver()
    s.set('timeout', int(max(timeout_s, 1) * 1000))
    s.add(*assertions)
    return s, s.check()


def decide(assumptions, goal, side=(), timeout_s=60, solver='z3', names=None, exclude=()):
    """Decide  assumptions => goal  (and assumptions => no encoding side condition).  `goal` may be a list of conjuncts, which are
    decided one query each (cheapest first as given).  Returns the obligation-result dict."""
    import time
    t0 = time.time()
    q = 0
    out = dict(queries=0)
    base = list(assumptions) + list(exclude)
    goals = list(goal) if isinstance(goal, (list, tuple)) else [goal]
    budget = lambda: timeout_s - (time.time() - t0)
    s, r = _fresh(base, min(timeout_s, 60))
    q += 1
    out['reach'] = str(r)
    if str(r) != 'sat':
        out.update(verdict='unknown', note='assumptions not satisfiable/decided (%s): vacuous' % r, queries=q, solver_s=time.time() - t0)
        return out
    if side:
        s, r = _fresh(base + [z3.Or(*side)], budget())
        q += 1
        if str(r) != 'unsat':
            m = _model(s, names) if str(r) == 'sat' else {}
            out.update(verdict='unknown', note='encoding side-condition can fail (%s) e.g. %s: encoding not valid on the whole bound' % (r, m),
                       queries=q, solver_s=time.time() - t0)
            return out
    for g in goals:
        s, r = _fresh(base + [z3.Not(g)], budget())
        q += 1
        if str(r) == 'sat':
            out.update(verdict='sat', model=_model(s, names), queries=q, solver_s=time.time() - t0)
            return out
        if str(r) != 'unsat':
            out.update(verdict='unknown', note='solver answered %s (%s) after %.0fs' % (r, s.reason_unknown(), time.time() - t0), queries=q, solver_s=time.time() - t0)
            return out
    out.update(verdict='unsat', queries=q, solver_s=time.time() - t0)
    return out


def _model(s, names):
    m = s.model()
    d = {}
    for decl in m.decls():
        n = decl.name()
        if names is not None and n not in names:
            continue
        v = m[decl]
        if z3.is_bv_value(v):
            d[n] = v.as_long()
        elif z3.is_int_value(v):
            d[n] = v.as_long()
        elif z3.is_fp_value(v) or z3.is_fp(v):
            try:
                bv = z3.simplify(z3.fpToIEEEBV(v))
                d[n] = struct.unpack('>d', struct.pack('>Q', bv.as_long()))[0].hex()
            except Exception:
                d[n] = str(v)
        elif z3.is_true(v) or z3.is_false(v):
            d[n] = z3.is_true(v)
        elif z3.is_string_value(v):
            d[n] = v.as_string()
        elif z3.is_rational_value(v):
            d[n] = '%s/%s' % (v.numerator_as_long(), v.denominator_as_long())
        else:
            d[n] = str(v)
    return d


def concretize(term, values):
    """Evaluate a z3 term under a complete assignment {z3 const: z3 value} (translator validation)."""
    return z3.simplify(z3.substitute(term, *values))
