"""E2b: LLVM IR (clang -O1 -S -emit-llvm of LISRepCode.cpp, regenerated on every run) -> z3 terms.

Handles exactly the loop-free leaf functions of that file: integer/FP arithmetic, icmp/fcmp/select/phi/br, one alloca'd i32 cell,
calls to ldexp/frexp (modelled as in py2smt).  Anything else raises NotEncodable (obligation inconclusive).
fptoui/fptosi of an out-of-range double is poison in LLVM (UB in C++): it is modelled as the x86-64 lowering (cvttsd2si to 64 bit, then
truncate) and the condition under which the source value is out of range is returned as a separate 'ub' list (triaged, not a violation).
"""
import re
import struct
import subprocess
import tempfile
import os

import z3

from engine import py2smt as P

CPP = os.path.join(os.environ.get('VERIF_REPO') or '/repo', 'src/TotalDepth/LIS/core/src/cpp/LISRepCode.cpp')


def emit_ir(path=CPP):
    with tempfile.TemporaryDirectory(prefix='verif_ll_') as tmp:
        out = os.path.join(tmp, 'm.ll')
        subprocess.run(['clang++', '-std=c++14', '-O1', '-S', '-emit-llvm', '-I', os.path.dirname(path), path, '-o', out],
                       check=True, capture_output=True)
        return open(out).read()


def parse_functions(ir):
    funcs = {}
    cur = None
    for line in ir.splitlines():
        m = re.match(r'^define .*? (\w+|double|float|void) @(\w+)\((.*?)\)', line)
        if m:
            params = []
            for p in m.group(3).split(','):
                p = p.strip()
                if not p:
                    continue
                toks = p.split()
                params.append((toks[0], toks[-1]))
            cur = dict(ret=m.group(1), name=m.group(2), params=params, blocks=[['%entry', []]])
            funcs[m.group(2)] = cur
            continue
        if cur is None:
            continue
        if line.startswith('}'):
            cur = None
            continue
        m = re.match(r'^(\w+):', line)
        if m:
            cur['blocks'].append(['%' + m.group(1), []])
            continue
        s = line.split(';')[0].strip()
        if s:
            cur['blocks'][-1][1].append(s)
    return funcs


def _width(t):
    return int(t[1:])


def _fconst(tok):
    if tok.startswith('0x'):
        return z3.fpBVToFP(z3.BitVecVal(int(tok, 16), 64), P.F64)
    return z3.FPVal(float(tok), P.F64)


class Enc:
    def __init__(self, func, args, ctx=None):
        self.f = func
        self.ctx = ctx or P.Ctx()
        self.v = {}
        self.ub = []
        for (t, name), a in zip(func['params'], args):
            self.v[name] = a
        # entry block label: first numbered value after params
        self.entry = '%entry'

    def val(self, t, tok):
        tok = tok.rstrip(',')
        if tok in self.v:
            return self.v[tok]
        if t == 'double':
            return _fconst(tok)
        if t == 'i1':
            return z3.BoolVal(tok in ('true', '1'))
        if tok in ('true', 'false'):
            return z3.BoolVal(tok == 'true')
        return z3.BitVecVal(int(tok), _width(t))

    def run(self):
        f = self.f
        blocks = f['blocks']
        labels = [b[0] for b in blocks]
        # the first block's label is the implicit %N after the params; find by scanning br targets
        nparams = len(f['params'])
        implicit = '%' + str(nparams)
        labels[0] = implicit
        blocks[0][0] = implicit
        cond = {implicit: z3.BoolVal(True)}
        edges = {}      # (from, to) -> condition
        mem = {}        # label -> {ptr: value} at block exit
        rets = []
        order = self._topo(blocks)
        for lab in order:
            insts = dict(blocks)[lab] if False else [b for b in blocks if b[0] == lab][0][1]
            preds = [(a, c) for (a, b), c in edges.items() if b == lab]
            if lab != implicit:
                cond[lab] = z3.Or(*[c for _, c in preds]) if preds else z3.BoolVal(False)
            # memory at entry = merge of predecessors
            m_in = {}
            for a, c in preds:
                for ptr, val in mem.get(a, {}).items():
                    m_in[ptr] = val if ptr not in m_in else z3.If(c, val, m_in[ptr])
            self.mem = m_in
            self.cur, self.curcond, self.preds = lab, cond[lab], preds
            for s in insts:
                r = self.inst(s, edges, rets)
            mem[lab] = dict(self.mem)
        val = rets[-1][1]
        for c, v in reversed(rets[:-1]):
            val = z3.If(c, v, val)
        return val

    def _topo(self, blocks):
        succ = {}
        for lab, insts in blocks:
            succ[lab] = []
            for s in insts:
                if s.startswith('br '):
                    succ[lab] = re.findall(r'label (%\w+)', s)
        order, seen = [], set()

        def visit(n):
            if n in seen:
                return
            seen.add(n)
            for m in succ.get(n, []):
                visit(m)
            order.append(n)
        visit(blocks[0][0])
        return list(reversed(order))

    def inst(self, s, edges, rets):
        ctx = self.ctx
        v = self.v
        m = re.match(r'^(%[\w.]+) = (.*)$', s)
        dst, rhs = (m.group(1), m.group(2)) if m else (None, s)
        t = rhs.split()
        op = t[0]
        if op in ('and', 'or', 'xor', 'shl', 'lshr', 'ashr', 'add', 'sub', 'mul'):
            toks = [x for x in t[1:] if x not in ('nsw', 'nuw', 'exact')]
            ty, a, b = toks[0], self.val(toks[0], toks[1]), self.val(toks[0], toks[2])
            if ty == 'i1':
                r = {'and': z3.And, 'or': z3.Or, 'xor': z3.Xor}[op](a, b)
            else:
                r = {'and': lambda: a & b, 'or': lambda: a | b, 'xor': lambda: a ^ b, 'shl': lambda: a << b, 'lshr': lambda: z3.LShR(a, b),
                     'ashr': lambda: a >> b, 'add': lambda: a + b, 'sub': lambda: a - b, 'mul': lambda: a * b}[op]()
                if 'nsw' in t or 'nuw' in t:
                    pass    # poison on overflow: the constants in this file cannot overflow; checked by the three-way obligation
            v[dst] = r
        elif op in ('zext', 'sext', 'trunc'):
            ft, a, tt = t[1], self.val(t[1], t[2]), t[4]
            if ft == 'i1':
                a = z3.If(a, z3.BitVecVal(1, 1), z3.BitVecVal(0, 1))
                ft = 'i1b'
            fw = 1 if ft == 'i1b' else _width(ft)
            tw = _width(tt)
            v[dst] = z3.ZeroExt(tw - fw, a) if op == 'zext' else z3.SignExt(tw - fw, a) if op == 'sext' else z3.Extract(tw - 1, 0, a)
        elif op == 'icmp':
            pred, ty, a, b = t[1], t[2], self.val(t[2], t[3]), self.val(t[2], t[4])
            v[dst] = {'eq': lambda: a == b, 'ne': lambda: a != b, 'sgt': lambda: a > b, 'sge': lambda: a >= b, 'slt': lambda: a < b,
                      'sle': lambda: a <= b, 'ugt': lambda: z3.UGT(a, b), 'uge': lambda: z3.UGE(a, b), 'ult': lambda: z3.ULT(a, b),
                      'ule': lambda: z3.ULE(a, b)}[pred]()
        elif op == 'fcmp':
            pred, a, b = t[1], self.val('double', t[3]), self.val('double', t[4])
            o = {'olt': z3.fpLT, 'ole': z3.fpLEQ, 'ogt': z3.fpGT, 'oge': z3.fpGEQ, 'oeq': z3.fpEQ}
            if pred in o:
                v[dst] = o[pred](a, b)
            elif pred == 'une':
                v[dst] = z3.Not(z3.fpEQ(a, b))
            else:
                raise P.NotEncodable('fcmp ' + pred)
        elif op == 'select':
            c = self.val('i1', t[2])
            ty = t[3]
            v[dst] = z3.If(c, self.val(ty, t[4]), self.val(ty, t[6]))
        elif op in ('sitofp', 'uitofp'):
            a = self.val(t[1], t[2])
            v[dst] = z3.fpSignedToFP(P.RNE, a, P.F64) if op == 'sitofp' else z3.fpUnsignedToFP(P.RNE, a, P.F64)
        elif op in ('fptosi', 'fptoui'):
            a = self.val('double', t[2])
            tw = _width(t[4])
            wide = z3.fpToSBV(P.RTZ, a, z3.BitVecSort(64))
            lo, hi = (-(2.0 ** (tw - 1)) - 1, 2.0 ** (tw - 1)) if op == 'fptosi' else (-1.0, 2.0 ** tw)
            self.ub.append(z3.And(self.curcond, z3.Not(z3.And(z3.fpGT(a, z3.FPVal(lo, P.F64)), z3.fpLT(a, z3.FPVal(hi, P.F64))))))
            v[dst] = z3.Extract(tw - 1, 0, wide)
        elif op in ('fmul', 'fdiv', 'fadd', 'fsub'):
            a, b = self.val('double', t[2]), self.val('double', t[3])
            v[dst] = {'fmul': z3.fpMul, 'fdiv': z3.fpDiv, 'fadd': z3.fpAdd, 'fsub': z3.fpSub}[op](P.RNE, a, b)
        elif op == 'fneg':
            v[dst] = z3.fpNeg(self.val('double', t[2]))
        elif op == 'alloca':
            v[dst] = ('ptr', dst)
        elif op == 'bitcast':
            v[dst] = self.val('ptr', t[2])
        elif op == 'store':
            val = self.val(t[1], t[2])
            ptr = v[t[4].rstrip(',')]
            self.mem[ptr] = val
        elif op == 'load':
            ptr = v[t[3].rstrip(',')]
            if ptr not in self.mem:
                raise P.NotEncodable('load of uninitialised cell')
            v[dst] = self.mem[ptr]
        elif op == 'phi':
            ty = t[1]
            pairs = re.findall(r'\[ ([^,]+), (%\w+) \]', rhs)
            val = None
            for tok, lab in pairs:
                c = dict(self.preds).get(lab)
                x = self.val(ty, tok.strip())
                val = x if val is None else z3.If(c, x, val)
            v[dst] = val
        elif op == 'br':
            if t[1] == 'label':
                edges[(self.cur, t[2])] = self.curcond
            else:
                c = self.val('i1', t[2])
                edges[(self.cur, t[4].rstrip(','))] = z3.And(self.curcond, c)
                edges[(self.cur, t[6])] = z3.And(self.curcond, z3.Not(c))
        elif op == 'ret':
            rets.append((self.curcond, self.val(t[1], t[2])))
        elif op == 'call' or (op == 'tail' and t[1] == 'call'):
            if '@llvm.lifetime' in rhs:
                return
            mm = re.search(r'@(\w+)\((.*)\)', rhs)
            name, args = mm.group(1), mm.group(2)
            parts = [a.strip().split() for a in args.split(',')]
            if name == 'ldexp':
                x = self.val('double', parts[0][-1])
                k = self.val('i32', parts[1][-1])
                r, _ = ctx.ldexp(P.SFloat(x), P.SInt(z3.SignExt(32, k)), self.curcond)
                v[dst] = r.e
            elif name == 'frexp':
                x = self.val('double', parts[0][-1])
                ptr = v[parts[1][-1]]
                mnt, e = ctx.frexp(P.SFloat(x), self.curcond)
                self.mem[ptr] = z3.Extract(31, 0, e.e)
                v[dst] = mnt.e
            else:
                raise P.NotEncodable('call @' + name)
        else:
            raise P.NotEncodable('IR instruction: ' + s)


def encode(ir_funcs, mangled, args, ctx=None):
    e = Enc(ir_funcs[mangled], args, ctx)
    val = e.run()
    return val, e


def find(ir_funcs, plain):
    for k in ir_funcs:
        if re.match(r'^_Z\d+%s[a-z]*$' % re.escape(plain), k):
            return k
    raise KeyError(plain)


# ---- build the real C++ functions from the current source for replay / translator validation

def build_cpp(path=CPP):
    import ctypes
    tmp = tempfile.mkdtemp(prefix='verif_cpp_')
    try:
        so = os.path.join(tmp, 'lisrepcode.so')
        subprocess.run(['clang++', '-std=c++14', '-O1', '-shared', '-fPIC', '-I', os.path.dirname(path), path, '-o', so], check=True, capture_output=True)
        lib = ctypes.CDLL(so)
    finally:
        import shutil
        shutil.rmtree(tmp, ignore_errors=True)
    ir = parse_functions(emit_ir(path))
    f68 = getattr(lib, find(ir, '_from68'))
    f68.restype = ctypes.c_double
    f68.argtypes = [ctypes.c_uint32]
    t68 = getattr(lib, find(ir, '_to68'))
    t68.restype = ctypes.c_uint32
    t68.argtypes = [ctypes.c_double]
    f49 = getattr(lib, find(ir, '_from49'))
    f49.restype = ctypes.c_double
    f49.argtypes = [ctypes.c_uint16]
    return dict(from68=f68, to68=t68, from49=f49)
