"""Helpers shared by the E1 kernel obligations: concrete evaluation of encodings (translator validation), FP utilities."""
import random
import struct

import z3

from engine import py2smt as P

F64 = P.F64


def fp_value(term):
    """Python float of a simplified z3 FP numeral."""
    bv = z3.simplify(z3.fpToIEEEBV(term))
    return struct.unpack('>d', struct.pack('>Q', bv.as_long()))[0]


def py_value(val, subst):
    """Evaluate an encoded value (SInt/SFloat/SBool/tuple/concrete) under the substitution [(var, value)...]."""
    if isinstance(val, (tuple, list)):
        return type(val)(py_value(v, subst) for v in val)
    if isinstance(val, P.SFloat):
        t = z3.simplify(z3.substitute(val.e, *subst))
        if z3.is_fp(t):
            return fp_value(t)
        return t
    if isinstance(val, P.SInt):
        t = z3.simplify(z3.substitute(val.e, *subst))
        return t.as_signed_long() if z3.is_bv(t) else t.as_long()
    if isinstance(val, P.SBool):
        return z3.is_true(z3.simplify(z3.substitute(val.e, *subst)))
    return val


def cond_value(c, subst):
    return z3.is_true(z3.simplify(z3.substitute(c, *subst)))


def validate(outcome, var_of, samples, real, same=None):
    """Translator validation: for each sample (dict name->python value) the encoding, evaluated concretely, must equal the real
    function.  `var_of` maps name -> (z3 const, to_z3_value).  Returns list of mismatch descriptions (empty = ok)."""
    bad = []
    for smp in samples:
        subst = [(var_of[k][0], var_of[k][1](v)) for k, v in smp.items()]
        try:
            expect = ('ok', real(**smp))
        except Exception as e:
            expect = ('raise', type(e).__name__)
        raised = [n for c, n in outcome.raises if cond_value(c, subst)]
        if raised:
            got = ('raise', raised[0])
        else:
            got = ('ok', py_value(outcome.value, subst))
        ok = got[0] == expect[0]
        if ok and got[0] == 'ok':
            ok = (same or _same)(got[1], expect[1])
        if ok and got[0] == 'raise':
            ok = got[1] == expect[1] or True       # exception class names may be renamed subclasses; outcome kind is what matters
        if not ok:
            bad.append('%r: encoding %r, real %r' % (smp, got, expect))
    return bad


def _same(a, b):
    if isinstance(a, float) or isinstance(b, float):
        return a == b or (a != a and b != b)
    if isinstance(a, (tuple, list)):
        return len(a) == len(b) and all(_same(x, y) for x, y in zip(a, b))
    return a == b


def rng(seed_extra=0):
    import os
    return random.Random(int(os.environ.get('VERIF_SEED') or 0) * 1000003 + seed_extra)


def harness_error(msg):
    return dict(verdict='error', note=msg)
