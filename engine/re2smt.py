"""E3: compiled `re` patterns (read from the live module objects) -> z3 regular expressions (DESIGN.md section 3).

Supported: literals, classes, ranges, \\d \\s \\w categories, . (any), * + ? {m,n}, groups (capturing or not), alternation, ^ $ anchors at the ends.
Anything else raises NotEncodable (obligation inconclusive).  Bytes patterns are decoded latin-1 (one byte = one character).
"""
import re
try:
    import re._parser as sre_parse
    import re._constants as sc
except ImportError:        # Python < 3.11
    import sre_parse
    import sre_constants as sc

import z3


class NotEncodable(Exception):
    pass


def _any():
    return z3.AllChar(z3.ReSort(z3.StringSort()))


def _union(parts):
    return parts[0] if len(parts) == 1 else z3.Union(*parts)


def _category(av):
    if av == sc.CATEGORY_DIGIT:
        return z3.Range('0', '9')
    if av == sc.CATEGORY_SPACE:
        return _union([z3.Re(c) for c in ' \t\n\r\x0b\x0c'])
    if av == sc.CATEGORY_WORD:
        return _union([z3.Range('0', '9'), z3.Range('a', 'z'), z3.Range('A', 'Z'), z3.Re('_')])
    if av == sc.CATEGORY_NOT_SPACE:
        return z3.Intersect(_any(), z3.Complement(_category(sc.CATEGORY_SPACE)))
    if av == sc.CATEGORY_NOT_DIGIT:
        return z3.Intersect(_any(), z3.Complement(z3.Range('0', '9')))
    raise NotEncodable('category %r' % (av,))


def _cls(items):
    parts = []
    neg = False
    for op, av in items:
        if op == sc.NEGATE:
            neg = True
        elif op == sc.LITERAL:
            parts.append(z3.Re(chr(av)))
        elif op == sc.RANGE:
            parts.append(z3.Range(chr(av[0]), chr(av[1])))
        elif op == sc.CATEGORY:
            parts.append(_category(av))
        else:
            raise NotEncodable('class item %r' % (op,))
    r = _union(parts)
    if neg:
        r = z3.Intersect(_any(), z3.Complement(r))
    return r


def _seq(seq, flags):
    out = []
    for op, av in seq:
        if op == sc.LITERAL:
            ch = chr(av)
            if flags & re.IGNORECASE and ch.lower() != ch.upper():
                out.append(z3.Union(z3.Re(ch.lower()), z3.Re(ch.upper())))
            else:
                out.append(z3.Re(ch))
        elif op == sc.NOT_LITERAL:
            out.append(z3.Intersect(_any(), z3.Complement(z3.Re(chr(av)))))
        elif op == sc.ANY:
            out.append(_any() if flags & re.DOTALL else z3.Intersect(_any(), z3.Complement(z3.Re('\n'))))
        elif op == sc.IN:
            out.append(_cls(av))
        elif op in (sc.MAX_REPEAT, sc.MIN_REPEAT):
            lo, hi, sub = av
            s = _seq(sub, flags)
            if hi == sc.MAXREPEAT:
                r = z3.Star(s)
                for _ in range(lo):
                    r = z3.Concat(s, r)
            else:
                r = z3.Loop(s, lo, hi)
            out.append(r)
        elif op == sc.SUBPATTERN:
            out.append(_seq(av[3], flags))
        elif op == sc.BRANCH:
            out.append(_union([_seq(b, flags) for b in av[1]]))
        elif op == sc.AT:
            if av in (sc.AT_BEGINNING, sc.AT_BEGINNING_STRING, sc.AT_END, sc.AT_END_STRING):
                continue
            raise NotEncodable('anchor %r' % (av,))
        elif op == sc.CATEGORY:
            out.append(_category(av))
        else:
            raise NotEncodable('regex op %r' % (op,))
    if not out:
        return z3.Re('')
    return out[0] if len(out) == 1 else z3.Concat(*out)


def pattern_text(compiled):
    p = compiled.pattern
    return p.decode('latin-1') if isinstance(p, bytes) else p


def to_z3(compiled, whole=True):
    """z3 regex for the language fully matched by `compiled` (must be anchored with ^...$ or used with fullmatch)."""
    pat = pattern_text(compiled)
    tree = sre_parse.parse(pat, compiled.flags & ~re.UNICODE if isinstance(compiled.pattern, bytes) else compiled.flags)
    return _seq(tree, compiled.flags)


def is_anchored(compiled):
    pat = pattern_text(compiled)
    return pat.startswith('^') and pat.endswith('$')


def group_re(compiled, index=1):
    """(prefix_re, group_re, suffix_re) for a pattern of the shape  prefix (group) suffix  at top level."""
    pat = pattern_text(compiled)
    tree = list(sre_parse.parse(pat, 0))
    pre, grp, post = [], None, []
    for op, av in tree:
        if op == sc.SUBPATTERN and av[0] == index and grp is None:
            grp = av[3]
        elif grp is None:
            pre.append((op, av))
        else:
            post.append((op, av))
    if grp is None:
        raise NotEncodable('no top-level group %d' % index)
    return _seq(pre, compiled.flags), _seq(grp, compiled.flags), _seq(post, compiled.flags)
