"""Obligations, verdicts, scheduling, replay, known findings, evidence (DESIGN.md sections 1 and 4)."""
import ast
import importlib
import json
import os
import re
import shutil
import subprocess
import sys
import tempfile
import time
from concurrent.futures import ThreadPoolExecutor

HOME = os.environ.get('VERIF_HOME') or os.path.dirname(os.path.dirname(os.path.abspath(__file__)))
REPO = os.environ.get('VERIF_REPO') or '/repo'
OUT = os.environ.get('VERIF_OUT') or HOME     # where evidence/ and replays/ are written (seedcheck redirects it)
PY = os.path.join(HOME, '.venv', 'bin', 'python')
CROSSHAIR = os.path.join(HOME, '.venv', 'bin', 'crosshair')
EXIT_OK, EXIT_VIOLATION, EXIT_HARNESS = 0, 1, 3
NCPU = int(os.environ.get('VERIF_JOBS', '16'))


class Ob:
    """One obligation.

    kind 'smt': fn() -> dict(verdict='unsat'|'sat'|'unknown', model={..}, reach='sat'|..., queries=int,
                 solver_s=float, note=str).  Run in its own process.
    kind 'ch' : CrossHair condition harness/<file>.py::<func>; bounds are its pre: lines.
    replay(inputs) -> (reproduces: bool, what: str), run in a plain Python process on the real code.
    classify(inputs) -> key used to match known findings (default: None).
    """

    def __init__(self, name, kind, bound, functions, tiers=('quick', 'thorough'), fn=None, harness=None,
                 func=None, timeout=60, replay=None, classify=None, stubs=(), twin=True, expect=None, parts=1, unblock=False):
        self.name, self.kind, self.bound, self.functions = name, kind, bound, list(functions)
        self.tiers, self.fn, self.harness, self.func = tiers, fn, harness, func
        self.timeout, self.replay, self.classify, self.stubs = timeout, replay, classify, list(stubs)
        self.twin = twin
        self.expect = expect
        self.unblock = unblock   # allow file-system side effects (scratch files under /tmp, removed by the harness)
        self.parts = parts     # CrossHair condition split into `parts` disjoint sub-conditions (env VERIF_PART), run concurrently


# ---------------------------------------------------------------------------------------------------
# known findings

def load_known(prop):
    path = os.path.join(HOME, 'known_findings.json')
    if not os.path.exists(path):
        return []
    with open(path) as f:
        data = json.load(f)
    return [e for e in data.get('findings', []) if e.get('property') == prop]


def excluded(key):
    """True if the input class `key` is a listed (status known, still reproducing) finding: obligations add the
    negation of that class to their assumptions so that any other violation is still searched for."""
    return key in [k for k in os.environ.get('VERIF_EXCLUDE', '').split(',') if k]


# ---------------------------------------------------------------------------------------------------
# running obligations

def _run_smt(prop, ob):
    t0 = time.time()
    cmd = [PY, '-B', os.path.join(HOME, 'engine', 'main.py'), prop, '--run-ob', ob.name]
    try:
        p = subprocess.run(cmd, capture_output=True, text=True, timeout=ob.timeout * 2 + 60, cwd=HOME)
    except subprocess.TimeoutExpired:
        return dict(verdict='unknown', note='hard timeout', wall=time.time() - t0)
    out = None
    for line in p.stdout.splitlines():
        if line.startswith('OBRESULT '):
            out = json.loads(line[len('OBRESULT '):])
    if out is None:
        return dict(verdict='error', note=(p.stderr or p.stdout)[-1500:], wall=time.time() - t0)
    out['wall'] = time.time() - t0
    return out


import threading as _threading
_CH_SLOTS = _threading.BoundedSemaphore(NCPU)       # at most NCPU CrossHair processes at a time (parts of all obligations share the cores)

_CH_LINE = re.compile(r'^(?P<file>[^:]+):(?P<line>\d+): (?P<kind>error|info): (?P<msg>.*)$')


def parse_call(msg, func):
    """Extract the argument dict from '... when calling func(a, b=..)...'."""
    i = msg.find('when calling ' + func + '(')
    if i < 0:
        return None
    s = msg[i + len('when calling '):]
    # find the matching close paren
    depth = 0
    end = None
    instr = None
    j = 0
    while j < len(s):
        c = s[j]
        if instr:
            if c == '\\':
                j += 1
            elif c == instr:
                instr = None
        elif c in '"\'':
            instr = c
        elif c == '(':
            depth += 1
        elif c == ')':
            depth -= 1
            if depth == 0:
                end = j + 1
                break
        j += 1
    if end is None:
        return None
    call = ast.parse(s[:end], mode='eval').body
    args = [ast.literal_eval(a) for a in call.args]
    kwargs = {k.arg: ast.literal_eval(k.value) for k in call.keywords}
    return args, kwargs


def _harness_target(harness, func):
    path = os.path.join(HOME, 'harness', harness + '.py')
    src = open(path).read()
    tree = ast.parse(src)
    for node in tree.body:
        if isinstance(node, ast.FunctionDef) and node.name == func:
            return path, node.lineno + 1, node
    raise KeyError('%s.%s' % (harness, func))


def _make_twin(harness, func, node, tmpdir):
    """Reachability twin: same signature and pre: lines; violated iff some path reaches engine.mark.hit()."""
    doc = ast.get_docstring(node) or ''
    pres = [l.strip() for l in doc.splitlines() if l.strip().startswith('pre:')]
    args = ast.unparse(node.args)
    names = [a.arg for a in node.args.args]
    text = (
        'import sys\nfrom typing import *\nsys.path.insert(0, %r)\nsys.path.insert(0, %r)\n'
        'from engine import mark\nimport %s as _H\nfrom %s import *\n'
        'def twin(%s) -> bool:\n    """\n%s\n    post: _\n    """\n'
        '    mark.REACHED = False\n    try:\n        _H.%s(%s)\n    except Exception:\n        pass\n    return not mark.REACHED\n'
    ) % (HOME, os.path.join(HOME, 'harness'), harness, harness, args, '\n'.join('    ' + p for p in pres), func, ', '.join(names))
    path = os.path.join(tmpdir, 'twin_%s_%s.py' % (harness, func))
    with open(path, 'w') as f:
        f.write(text)
    return path


def _crosshair(target, timeout, per_path=None, part=None, unblock=False):
    cmd = [CROSSHAIR, 'check', '--extra_plugin', os.path.join(HOME, 'engine', 'plugin.py'), '--report_all',
           '--per_condition_timeout', str(timeout)]
    if per_path:
        cmd += ['--per_path_timeout', str(per_path)]
    if unblock:
        cmd += ['--unblock=EVERYTHING']
    cmd.append(target)
    env = dict(os.environ)
    env['PYTHONPATH'] = HOME + os.pathsep + os.path.join(HOME, 'harness') + os.pathsep + env.get('PYTHONPATH', '')
    env['PYTHONHASHSEED'] = '0'
    if part is not None:
        env['VERIF_PART'] = str(part)
    else:
        env.pop('VERIF_PART', None)
    _CH_SLOTS.acquire()
    try:
        return _crosshair_inner(cmd, env, timeout)
    finally:
        _CH_SLOTS.release()


def _crosshair_inner(cmd, env, timeout):
    import threading
    t0 = time.time()
    stats = dict(paths=0, unknown=0, realized=0, tree='', path_timeouts=0)
    p = subprocess.Popen(cmd, stdout=subprocess.PIPE, stderr=subprocess.PIPE, text=True, env=env, cwd=HOME)
    import threading

    def pump():
        # the path statistics come from engine/ch_stats.py (one VERIF-STATS line at exit); -v is not used: see that module
        for line in p.stderr:
            if line.startswith('VERIF-STATS '):
                try:
                    d = json.loads(line[len('VERIF-STATS '):])
                    stats['paths'], stats['unknown'], stats['path_timeouts'], stats['tree'] = d['paths'], d['unknown'], d['path_timeouts'], d['tree']
                except Exception:
                    pass
            elif 'Traceback' in line or 'Error' in line:
                stats.setdefault('stderr_tail', [])
                if len(stats['stderr_tail']) < 20:
                    stats['stderr_tail'].append(line.strip()[:300])
    th = threading.Thread(target=pump, daemon=True)
    th.start()
    outbuf = []
    th2 = threading.Thread(target=lambda: outbuf.append(p.stdout.read()), daemon=True)
    th2.start()
    try:
        p.wait(timeout=timeout * 2.5 + 120)
    except subprocess.TimeoutExpired:
        p.kill()
        stats['hard_timeout'] = True
    th.join(10)
    th2.join(10)
    out = outbuf[0] if outbuf else ''
    stats['wall'] = time.time() - t0
    stats['exit'] = p.returncode
    return out or '', stats


def _run_ch(prop, ob, tmpdir):
    path, line, node = _harness_target(ob.harness, ob.func)
    if ob.parts > 1:
        with ThreadPoolExecutor(max_workers=ob.parts) as ex:
            runs = list(ex.map(lambda k: _crosshair('%s:%d' % (path, line), ob.timeout, part=k, unblock=ob.unblock), range(ob.parts)))
        out = '\n'.join(o for o, _ in runs)
        st = dict(wall=max(s_['wall'] for _, s_ in runs), paths=sum(s_['paths'] for _, s_ in runs), unknown=sum(s_['unknown'] for _, s_ in runs),
                  realized=sum(s_['realized'] for _, s_ in runs), tree=' | '.join(s_['tree'] for _, s_ in runs)[:600],
                  exit=max((s_.get('exit') or 0) for _, s_ in runs), stderr_tail=[x for _, s_ in runs for x in s_.get('stderr_tail', [])][:20])
        verdicts = []
        for o, s_ in runs:
            v = 'cex' if ': error: ' in o else 'confirmed' if 'Confirmed over all paths' in o else 'unmet' if 'Unable to meet precondition' in o else 'open'
            if v == 'unmet' and s_['unknown'] == 0 and s_['path_timeouts'] == 0 and not s_.get('hard_timeout'):
                v = 'empty'         # no path satisfies the preconditions of this part (and none was cut short): an empty cell of the partition
            verdicts.append(v)
        st['part_verdicts'] = verdicts
    else:
        out, st = _crosshair('%s:%d' % (path, line), ob.timeout, unblock=ob.unblock)
    res = dict(verdict='unknown', note='', wall=st['wall'], paths=st['paths'], unknown_paths=st['unknown'],
               realized=st['realized'], tree=st['tree'], queries=st['paths'])
    msgs = []
    for l in out.splitlines():
        m = _CH_LINE.match(l.strip())
        if m:
            msgs.append((m.group('kind'), m.group('msg')))
    errs = [m for k, m in msgs if k == 'error']
    infos = [m for k, m in msgs if k == 'info']
    if errs:
        res['verdict'] = 'sat'
        res['note'] = errs[0][:600]
        parsed = None
        try:
            parsed = parse_call(errs[0], ob.func)
        except Exception as e:  # unparsable repr
            res['note'] += ' [unparsable args: %r]' % (e,)
        if parsed is None:
            res['verdict'] = 'error'
            res['note'] = 'crosshair error without call arguments: ' + errs[0][:600]
        else:
            names = [a.arg for a in node.args.args]
            args, kwargs = parsed
            model = dict(zip(names, args))
            model.update(kwargs)
            res['model'] = model
    elif ob.parts > 1 and st.get('exit') not in (0, 1):
        res['verdict'] = 'error'
        res['note'] = 'crosshair exited with %s in at least one part: %s' % (st.get('exit'), ' | '.join(st.get('stderr_tail', []))[-600:])
    elif ob.parts > 1 and not (all(v in ('confirmed', 'empty') for v in st['part_verdicts']) and 'confirmed' in st['part_verdicts']):
        res['note'] = 'parts: %s (search not exhausted in %ss CPU per part; %d paths explored, none failed)' % (','.join(st['part_verdicts']), ob.timeout, st['paths'])
    elif any('Confirmed over all paths' in m for m in infos):
        res['verdict'] = 'unsat'
        res['note'] = 'Confirmed over all paths' + (' in each of %d parts' % ob.parts if ob.parts > 1 else '')
    elif any('Unable to meet precondition' in m for m in infos):
        res['note'] = 'Unable to meet precondition'
    elif any('Not confirmed' in m for m in infos):
        res['note'] = 'Not confirmed (search not exhausted in %ss CPU; %d paths explored, none failed)' % (ob.timeout, st['paths'])
    else:
        res['verdict'] = 'error' if st.get('exit') not in (0, 1) else 'unknown'
        res['note'] = 'no verdict line; exit=%s; %s' % (st.get('exit'), ' | '.join(st.get('stderr_tail', []))[-800:])
    # reachability twin
    if ob.twin and res['verdict'] in ('unsat', 'unknown'):
        tw = _make_twin(ob.harness, ob.func, node, tmpdir)
        tout, tst = _crosshair(tw, min(ob.timeout, 60), unblock=ob.unblock)
        res['reach'] = 'sat' if ': error: false when calling twin(' in tout else 'not shown (%s)' % ' | '.join(tst.get('stderr_tail', []))[-200:]
        res['wall'] += tst['wall']
    elif res['verdict'] == 'sat':
        res['reach'] = 'sat'
    return res


def run_ob_inprocess(ob):
    """Executed in the child process started by _run_smt."""
    t0 = time.time()
    try:
        r = ob.fn()
    except Exception as e:
        import traceback
        r = dict(verdict='error', note=traceback.format_exc()[-1500:])
    r.setdefault('solver_s', time.time() - t0)
    print('OBRESULT ' + json.dumps(r, default=str))


def do_replay(prop, ob, inputs, tier='thorough'):
    """Run ob.replay in a plain process (no CrossHair tracing); returns (reproduces, what)."""
    os.makedirs(os.path.join(OUT, 'replays'), exist_ok=True)
    path = os.path.join(OUT, 'replays', '%s_%s.json' % (prop, re.sub(r'[^A-Za-z0-9_.-]', '_', ob.name)))
    with open(path, 'w') as f:
        json.dump(dict(property=prop, obligation=ob.name, tier=tier, inputs=_enc_bytes(inputs)), f, indent=1, default=repr)
    p = subprocess.run([PY, '-B', os.path.join(HOME, 'engine', 'main.py'), prop, '--replay', path],
                       capture_output=True, text=True, timeout=600, cwd=HOME)
    what = ''
    for l in p.stdout.splitlines():
        if l.startswith('REPLAY '):
            what = l[len('REPLAY '):]
    if p.returncode == 1:
        return True, what, path
    if p.returncode == 0:
        return False, what, path
    return None, (p.stderr or p.stdout)[-1500:], path


def _enc_bytes(d):
    return {k: ({'__bytes__': bytes(v).hex()} if isinstance(v, (bytes, bytearray)) else v) for k, v in d.items()} if isinstance(d, dict) else d


def dec_bytes(d):
    return {k: (bytes.fromhex(v['__bytes__']) if isinstance(v, dict) and '__bytes__' in v else v) for k, v in d.items()} if isinstance(d, dict) else d


def default_ch_replay(ob):
    def replay(inputs):
        sys.path.insert(0, os.path.join(HOME, 'harness'))
        mod = importlib.import_module(ob.harness)
        real = getattr(mod, 'real_' + ob.func, None)
        fn = real or getattr(mod, ob.func)
        try:
            r = fn(**inputs)
        except Exception as e:
            return True, '%s(%s) raised %s: %s' % (fn.__name__, _short(inputs), type(e).__name__, str(e)[:200])
        if not r:
            return True, '%s(%s) returned %r' % (fn.__name__, _short(inputs), r)
        return False, '%s(%s) returned %r' % (fn.__name__, _short(inputs), r)
    return replay


def _short(d):
    s = ', '.join('%s=%r' % kv for kv in d.items())
    return s if len(s) < 300 else s[:300] + '...'


# ---------------------------------------------------------------------------------------------------
# the check

def run_check(prop, module, tier, seed):
    t0 = time.time()
    obs = [o for o in module.obligations(tier) if tier in o.tiers]
    only = [n for n in (os.environ.get('VERIF_ONLY') or '').split(',') if n]
    if only:
        # development aid (never set by a registered command): run a subset of the obligations; only honoured with a scratch VERIF_OUT
        if not os.environ.get('VERIF_OUT'):
            print('HARNESS-ERROR property=%s VERIF_ONLY needs VERIF_OUT (the evidence of a partial run must not replace the real one)' % prop)
            return EXIT_HARNESS
        obs = [o for o in obs if o.name in only]
    for o in obs:
        if o.kind == 'ch' and o.replay is None:
            o.replay = default_ch_replay(o)
            o.default_replay = True
    byname = {o.name: o for o in obs}
    lines = []
    exit_code = EXIT_OK
    violations = 0
    harness_errors = []
    # known findings: confirm each still reproduces, then exclude it from the searches
    known = load_known(prop)
    active = []
    known_report = []
    allobs = {o.name: o for o in module.obligations('thorough')}
    for o in allobs.values():
        if o.kind == 'ch' and o.replay is None:
            o.replay = default_ch_replay(o)
            o.default_replay = True
    for e in known:
        if e.get('status') != 'known':
            continue
        w = e.get('witness') or {}
        ob = allobs.get(w.get('ob'))
        if ob is None or ob.replay is None:
            harness_errors.append('known finding %s has no replayable witness' % e.get('key'))
            continue
        rep, what, path = do_replay(prop, ob, w.get('inputs', {}))
        if rep:
            active.append(e['key'])
            lines.append('KNOWN-FINDING: property=%s %s [%s]' % (prop, e['what'], what))
            known_report.append(dict(key=e['key'], reproduces=True, what=what))
        else:
            known_report.append(dict(key=e['key'], reproduces=False, what=what))
    os.environ['VERIF_EXCLUDE'] = ','.join(active)
    os.environ['VERIF_SEED'] = str(seed)
    tmpdir = tempfile.mkdtemp(prefix='verif_%s_' % prop)
    results = {}
    try:
        with ThreadPoolExecutor(max_workers=NCPU) as ex:
            futs = {}
            for o in obs:
                if o.kind == 'smt':
                    futs[o.name] = ex.submit(_run_smt, prop, o)
                else:
                    futs[o.name] = ex.submit(_run_ch, prop, o, tmpdir)
            for n, f in futs.items():
                try:
                    results[n] = f.result()
                except Exception as e:
                    results[n] = dict(verdict='error', note=repr(e), wall=0)
    finally:
        shutil.rmtree(tmpdir, ignore_errors=True)
    samples = []
    discharged = inconclusive = nontrivial = 0
    evaluations = 0
    solver_s = 0.0
    for o in obs:
        r = results[o.name]
        evaluations += int(r.get('queries', 1) or 1)
        solver_s += float(r.get('solver_s', r.get('wall', 0)) or 0)
        v = r.get('verdict')
        status = None
        if v == 'unsat':
            if r.get('reach', 'sat') == 'sat':
                discharged += 1
                nontrivial += 1
                status = 'discharged'
            else:
                inconclusive += 1
                status = 'inconclusive (vacuity: reachability twin not satisfiable: %s)' % r.get('reach')
        elif v == 'unknown':
            inconclusive += 1
            if r.get('reach') == 'sat':
                nontrivial += 1
            status = 'inconclusive (%s)' % r.get('note', '')
        elif v == 'sat':
            model = r.get('model', {})
            rep, what, path = (None, 'no replay function', None)
            if o.replay is not None:
                rep, what, path = do_replay(prop, o, model, tier)
            if rep is True:
                key = None
                if o.classify is not None:
                    try:
                        key = o.classify(model)
                    except Exception:
                        key = None
                # A CrossHair counterexample that was found AND replayed by the harness function itself while the known findings were
                # switched off inside that harness (VERIF_EXCLUDE) cannot be one of them: classification is then only informative.
                # It decides only where the replay compares with the strict oracle (SMT obligations with their own replay function).
                if key is not None and key in active and not getattr(o, 'default_replay', False):
                    status = 'known finding %s re-found' % key
                    nontrivial += 1
                else:
                    violations += 1
                    exit_code = EXIT_VIOLATION
                    lines.append('VIOLATION property=%s replay=%s' % (prop, path))
                    lines.append('  obligation %s: %s' % (o.name, what))
                    status = 'VIOLATION: ' + what
            else:
                harness_errors.append('%s: counterexample %s did not reproduce on the real code (%s)' % (o.name, _short(model), what))
                status = 'HARNESS-ERROR: counterexample did not reproduce: %s' % (what,)
        else:
            harness_errors.append('%s: %s' % (o.name, r.get('note', '')))
            status = 'HARNESS-ERROR: ' + str(r.get('note', ''))[:500]
        samples.append(dict(obligation=o.name, kind=o.kind, bound=o.bound, verdict=status,
                            reach=r.get('reach'), wall_s=round(r.get('wall', 0), 2),
                            paths=r.get('paths'), tree=r.get('tree'), unknown_paths=r.get('unknown_paths'),
                            realized=r.get('realized'), queries=r.get('queries'), note=r.get('note', '')[:300] if v != 'unsat' else r.get('note', '')[:120],
                            model=r.get('model') if v == 'sat' else None))
    if harness_errors and exit_code == EXIT_OK:
        exit_code = EXIT_HARNESS
    for l in lines:
        print(l)
    for h in harness_errors:
        print('HARNESS-ERROR property=%s %s' % (prop, h[:1000]))
    wall = time.time() - t0
    meta = getattr(module, 'META', {})
    funcs = sorted({f for o in obs for f in o.functions})
    stubs = sorted({s for o in obs for s in o.stubs})
    ev = dict(
        property_id=prop, tier=tier, seed=seed, level='other',
        coverage=dict(
            explanation=meta.get('explanation', '') + ' Verdict rule: unsat / "Confirmed over all paths" = holds for every input '
            'inside the stated bound; anything else is inconclusive and listed as such; a counterexample is replayed on the real code '
            'before it is reported.',
            obligations=len(obs), discharged=discharged, inconclusive=inconclusive,
            evaluations=max(evaluations, 1), distinct_nontrivial=nontrivial,
            rule='one case = one obligation (an SMT query family or a CrossHair condition); non-trivial = its reachability twin '
                 '(same assumptions, assertion replaced by false) was satisfiable / the assertion point was reached; '
                 'evaluations = solver queries + CrossHair paths executed',
            samples=samples, functions_encoded=funcs, stubs=stubs,
            solver_time_s=round(solver_s, 2), checker_cmd='./check %s --tier %s' % (prop, tier),
            trusted_base=meta.get('trusted_base', []), outside_claim=meta.get('outside', []),
            known_findings=known_report, exhaustive=False),
        assumptions=meta.get('assumptions', []) + ['stub: ' + s for s in stubs],
        wall_s=round(wall, 2), violations=violations)
    os.makedirs(os.path.join(OUT, 'evidence'), exist_ok=True)
    with open(os.path.join(OUT, 'evidence', prop + '.json'), 'w') as f:
        json.dump(ev, f, indent=1, default=repr)
    print('%s tier=%s obligations=%d discharged=%d inconclusive=%d violations=%d harness_errors=%d wall=%.1fs'
          % (prop, tier, len(obs), discharged, inconclusive, violations, len(harness_errors), wall))
    for s in samples:
        print('  - %-40s %-6s %7.1fs  %s' % (s['obligation'], s['kind'], s['wall_s'], str(s['verdict'])[:140]))
    return exit_code
