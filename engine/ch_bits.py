"""CrossHair plugin: keep & | ^ symbolic for non-negative ints using LIA div/mod (constant masks) or bounded BV."""
import operator as ops
import z3
from typing import Union
from numbers import Integral
from crosshair.libimpl import builtinslib as B
from crosshair.core import realize
from crosshair.statespace import context_statespace
from crosshair.tracers import NoTracing

W = 40  # bit-width for symbolic/symbolic ops

def _runs(mask):
    runs = []; i = 0
    while mask >> i:
        if (mask >> i) & 1:
            j = i
            while (mask >> j) & 1: j += 1
            runs.append((i, j)); i = j
        else: i += 1
    return runs

def _and_const(avar, mask):
    tot = z3.IntVal(0)
    for lo, hi in _runs(mask):
        tot = tot + ((avar / (1 << lo)) % (1 << (hi - lo))) * (1 << lo)
    return tot

def _var(x):
    return x.var if isinstance(x, B.SymbolicInt) else z3.IntVal(int(x))

def _bitop(op, a, b):
    with NoTracing():
        space = context_statespace()
        if isinstance(a, B.SymbolicBool) or isinstance(b, B.SymbolicBool):
            return op(realize(a), realize(b))
        if not isinstance(a, B.SymbolicInt) and not isinstance(b, B.SymbolicInt):
            return op(realize(a), realize(b))
        if isinstance(b, B.SymbolicInt) and not isinstance(a, B.SymbolicInt):
            a, b = b, a
        # a symbolic
        if not space.smt_fork(a.var >= 0, probability_true=0.95):
            return op(realize(a), realize(b))
        if not isinstance(b, B.SymbolicInt):
            b = int(b)
            if b < 0:
                return op(realize(a), b)
            if op is not ops.and_ and b > 0:
                # (sym << k) | CONST / CONST_HI | sym_lo : disjoint bits, so | and ^ are +  (pure LIA, no div/mod terms)
                for k in (8, 16, 24, 32):
                    m = 1 << k
                    if b % m == 0:
                        if space.smt_fork(a.var < m, probability_true=0.9):
                            return B.SymbolicInt(a.var + b)
                    elif b < m:
                        if space.smt_fork(a.var % m == 0, probability_true=0.9):
                            return B.SymbolicInt(a.var + b)
                        break
            if b == 0:
                return 0 if op is ops.and_ else a
            andv = _and_const(a.var, b)
            if op is ops.and_: return B.SymbolicInt(andv)
            if op is ops.or_: return B.SymbolicInt(a.var + b - andv)
            return B.SymbolicInt(a.var + b - 2 * andv)
        if not space.smt_fork(b.var >= 0, probability_true=0.95):
            return op(realize(a), realize(b))
        # Common idiom: (x << k) | y with y < 2**k  ==> disjoint bits, so | ^ are + and & is 0
        for k in (8, 16, 24, 32):
            m = 1 << k
            for hi_, lo_ in ((a, b), (b, a)):
                if space.smt_fork(z3.And(hi_.var % m == 0, lo_.var < m), probability_true=0.9):
                    if op is ops.and_:
                        return 0
                    return B.SymbolicInt(hi_.var + lo_.var)
        lim = 1 << W
        if not space.smt_fork(z3.And(a.var < lim, b.var < lim), probability_true=0.95):
            return op(realize(a), realize(b))
        x = z3.Int2BV(a.var, W); y = z3.Int2BV(b.var, W)
        r = {ops.and_: x & y, ops.or_: x | y, ops.xor: x ^ y}[op]
        return B.SymbolicInt(z3.BV2Int(r, False))

def _h(op, a: Union[B.SymbolicInt, int], b: Union[B.SymbolicInt, int]):
    return _bitop(op, a, b)

def _h2(op, a: B.SymbolicInt, b: B.SymbolicInt):
    return _bitop(op, a, b)
def _h3(op, a: B.SymbolicInt, b: int):
    return _bitop(op, a, b)
def _h4(op, a: int, b: B.SymbolicInt):
    return _bitop(op, a, b)

for h in (_h2, _h3, _h4):
    B.setup_binop(h, {ops.and_, ops.or_, ops.xor})
B._BIN_OPS.clear()


# ---- f-strings of symbolic ints (error messages such as f'Chunk length {n} is out of range'): CrossHair's SymbolicInt.__format__ realizes the
# int, i.e. one path per VALUE of n on an error path whose message nobody reads.  With an empty format spec the result is by definition str(n),
# for which CrossHair has a lazy symbolic string that forks only on the number of digits.
def _install_format():
    try:
        from crosshair import core as _core
        from crosshair.libimpl import builtinslib as _bl
        from crosshair.tracers import NoTracing
    except Exception:
        return
    ch_format = _core._PATCH_REGISTRATIONS.get(format)
    if ch_format is None:
        return

    def _format(obj, format_spec=''):
        with NoTracing():
            lazy = isinstance(obj, _bl.SymbolicInt) and type(format_spec) is str and format_spec == ""
        if lazy:
            return obj.__repr__()
        return ch_format(obj, format_spec)
    _core._PATCH_REGISTRATIONS[format] = _format


_install_format()
