"""Path statistics of a CrossHair run, collected inside the CrossHair process and printed as one line at exit.

`crosshair check -v` prints the same numbers, but it also prints a stack trace per decision: with the branch-enumerating harnesses
(mark.pick) that is tens of megabytes of log and slows a condition down 5-8 times, so the driver no longer uses -v."""
import atexit
import json
import sys

S = dict(paths=0, unknown=0, path_timeouts=0, tree='')


def _install():
    try:
        from crosshair import statespace, util
    except Exception:
        return
    orig_bubble = statespace.StateSpace.bubble_status

    def bubble_status(self, analysis):
        S['paths'] += 1
        return orig_bubble(self, analysis)
    statespace.StateSpace.bubble_status = bubble_status

    root = getattr(statespace, 'RootNode', None)
    if root is not None and hasattr(root, 'stats'):
        orig_stats = root.stats

        def stats(self):
            r = orig_stats(self)
            try:
                S['tree'] = str(r)[:300]
            except Exception:
                pass
            return r
        root.stats = stats

    def counting(cls, key):
        orig_init = cls.__init__

        def __init__(self, *a, **kw):
            S[key] += 1
            orig_init(self, *a, **kw)
        cls.__init__ = __init__
    counting(util.UnknownSatisfiability, 'unknown')
    counting(util.PathTimeout, 'path_timeouts')

    def report():
        try:
            sys.stderr.write('VERIF-STATS ' + json.dumps(S) + '\n')
            sys.stderr.flush()
        except Exception:
            pass
    atexit.register(report)


_install()
