"""CLI of the checking machinery:  main.py <ID> [--tier quick|thorough] | <ID> --replay <path> | <ID> --run-ob <name>"""
import argparse
import importlib
import json
import os
import sys

HOME = os.environ.get('VERIF_HOME') or os.path.dirname(os.path.dirname(os.path.abspath(__file__)))
sys.path.insert(0, HOME)
sys.path.insert(0, os.path.join(HOME, 'harness'))
if os.environ.get('VERIF_REPO'):
    # development aid only (engine/seedcheck.py --mode worktree): analyse another checkout of the repository instead of /repo.
    # The registered commands never set it.
    _src = os.path.join(os.environ['VERIF_REPO'], 'src')
    sys.path.insert(0, _src)
    os.environ['PYTHONPATH'] = _src + os.pathsep + os.environ.get('PYTHONPATH', '')
import logging
logging.disable(logging.CRITICAL)
from engine import core  # noqa: E402


def main():
    ap = argparse.ArgumentParser()
    ap.add_argument('prop')
    ap.add_argument('--tier', default=os.environ.get('VERIF_TIER') or 'quick', choices=['quick', 'thorough'])
    ap.add_argument('--replay')
    ap.add_argument('--run-ob')
    a = ap.parse_args()
    seed = int(os.environ.get('VERIF_SEED') or 0)
    try:
        module = importlib.import_module('props.' + a.prop)
    except Exception:
        import traceback
        traceback.print_exc()
        print('HARNESS-ERROR property=%s cannot import props.%s' % (a.prop, a.prop))
        return core.EXIT_HARNESS
    if a.run_ob:
        obs = {o.name: o for o in module.obligations('thorough')}
        core.run_ob_inprocess(obs[a.run_ob])
        return 0
    if a.replay:
        with open(a.replay) as f:
            d = json.load(f)
        obs = {o.name: o for o in module.obligations('thorough')}
        obs.update({o.name: o for o in module.obligations(d.get('tier', 'thorough'))})
        ob = obs[d['obligation']]
        rp = ob.replay or (core.default_ch_replay(ob) if ob.kind == 'ch' else None)
        if rp is None:
            print('REPLAY no replay function')
            return 2
        rep, what = rp(core.dec_bytes(d['inputs']))
        print('REPLAY ' + what)
        if rep:
            print('VIOLATION property=%s replay=%s' % (a.prop, a.replay))
        return 1 if rep else 0
    return core.run_check(a.prop, module, a.tier, seed)


if __name__ == '__main__':
    sys.exit(main())
