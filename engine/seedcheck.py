"""Confirm a sub-agent mutation and run the registered checks against it.

usage: seedcheck.py <PROP> <worktree> [--checks C01,C02] [--tier quick] [--name dir] [--mode repo|worktree]
 1. in the worktree (mutation applied): full test suite must pass, demo.py must exit 1; on a clean export of /repo HEAD demo.py must exit 0;
 2. copy patch.diff / demo.py / meta.json to /verif/seeded/<PROP>[_n]/;
 3. apply the patch to /repo, run ./check for the property (and any extra checks), ALWAYS undo with git checkout -- .;
 4. write seeded/<dir>/result.json with what was run and which obligations reported the violation.
"""
import json
import os
import shutil
import subprocess
import sys
import tempfile

HOME = os.path.dirname(os.path.dirname(os.path.abspath(__file__)))


def sh(cmd, **kw):
    return subprocess.run(cmd, shell=True, capture_output=True, text=True, **kw)


def _confirm(prop, wt, dest):
    out = os.path.join(wt, 'OUT')
    res = dict(property=prop, worktree=wt)
    # the worktree is reset to exactly HEAD + OUT/patch.diff (sub-agents share one git stash across worktrees: do not trust what is left there)
    sh('git -C %s checkout -- src' % wt)
    ap = sh('git -C %s apply %s' % (wt, os.path.join(out, 'patch.diff')))
    if ap.returncode != 0:
        print('patch.diff does not apply to a clean worktree:', ap.stderr)
        return None
    # 1. confirm
    t = sh('cd %s && PYTHONPATH=%s/src /venv/bin/python -m pytest -q -p no:cacheprovider --timeout=900 tests 2>&1 | tail -1' % (wt, wt))
    res['tests_with_change'] = t.stdout.strip()[-200:]
    ok_tests = ' passed' in t.stdout and ' failed' not in t.stdout and ' error' not in t.stdout.lower()
    d1 = sh('cd %s && PYTHONPATH=%s/src /venv/bin/python OUT/demo.py' % (wt, wt))
    res['demo_with_change_exit'] = d1.returncode
    res['demo_with_change_tail'] = (d1.stdout + d1.stderr)[-400:]
    d0 = sh('cd %s && PYTHONPATH=/repo/src /venv/bin/python %s/OUT/demo.py' % (tempfile.gettempdir(), wt))
    res['demo_without_change_exit'] = d0.returncode
    res['confirmed'] = bool(ok_tests and d1.returncode != 0 and d0.returncode == 0)
    os.makedirs(dest, exist_ok=True)
    for f in ('patch.diff', 'demo.py', 'meta.json'):
        if os.path.exists(os.path.join(out, f)):
            shutil.copy(os.path.join(out, f), os.path.join(dest, f))
    return res


def main():
    prop, wt = sys.argv[1], sys.argv[2]
    checks = [prop]
    tier = 'quick'
    name = prop
    mode = 'repo'
    recheck = '--recheck' in sys.argv      # steps 1-2 were done before (seeded/<name>/ exists): only run the checks again
    for i, a in enumerate(sys.argv):
        if a == '--checks':
            checks = sys.argv[i + 1].split(',')
        if a == '--tier':
            tier = sys.argv[i + 1]
        if a == '--name':
            name = sys.argv[i + 1]
        if a == '--mode':
            mode = sys.argv[i + 1]
    dest = os.path.join(HOME, 'seeded', name)
    if recheck:
        res = json.load(open(os.path.join(dest, 'result.json')))
        if not res.get('confirmed'):
            print('not a confirmed change')
            return 2
        if mode == 'worktree':
            print('--recheck works with --mode repo only (the worktree may be gone)')
            return 3
    else:
        res = _confirm(prop, wt, dest)
        if res is None:
            return 3
        if not res['confirmed']:
            json.dump(res, open(os.path.join(dest, 'result.json'), 'w'), indent=1)
            print('NOT CONFIRMED', json.dumps(res, indent=1))
            return 2
    # 3. run the checks against the mutation: --mode repo applies the patch to /repo (and ALWAYS undoes it), --mode worktree points the
    #    machinery at the sub-agent's worktree (VERIF_REPO), which allows several mutations to be examined at once.  evidence/ and replays/ of
    #    these runs go to seeded/<name>/run (VERIF_OUT) so that /verif/evidence keeps describing the unchanged tree.
    run = os.path.join(dest, 'run')
    shutil.rmtree(run, ignore_errors=True)
    os.makedirs(run)
    env = dict(os.environ, VERIF_OUT=run)
    res['mode'] = mode
    if mode == 'repo':
        st = sh('git -C /repo status --porcelain --untracked-files=no')
        if st.stdout.strip():
            print('/repo is not clean, refusing')
            return 3
        ap = sh('git -C /repo apply %s' % os.path.join(dest, 'patch.diff'))
        if ap.returncode != 0:
            print('patch does not apply to /repo:', ap.stderr)
            return 3
    else:
        env['VERIF_REPO'] = wt
    res['checks'] = {}
    try:
        for c in checks:
            r = sh('cd %s && ./check %s --tier %s' % (HOME, c, tier), env=env)
            lines = [l for l in r.stdout.splitlines() if l.startswith(('VIOLATION', '  obligation', 'HARNESS-ERROR'))]
            obs = [l.strip() for l in r.stdout.splitlines() if 'VIOLATION:' in l and l.strip().startswith('- ')]
            res['checks'][c] = dict(exit=r.returncode, caught=(r.returncode == 1), lines=[l[:300] for l in lines][:12], obligations=[o.split()[1] for o in obs])
    finally:
        if mode == 'repo':
            sh('git -C /repo checkout -- .')
    res['repo_clean_after'] = sh('git -C /repo status --porcelain --untracked-files=no').stdout.strip() == ''
    json.dump(res, open(os.path.join(dest, 'result.json'), 'w'), indent=1)
    print(json.dumps({k: v for k, v in res.items() if k in ('confirmed', 'checks', 'repo_clean_after')}, indent=1)[:3000])
    return 0


if __name__ == '__main__':
    sys.exit(main())
