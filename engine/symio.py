"""Harness-side stand-ins that keep values symbolic under CrossHair (DESIGN.md section 3, E4).  Each is validated against the real
thing on concrete inputs by engine/selftest.py."""
import io
import struct


class SymFile(io.BufferedIOBase):
    """Pure-Python file over a bytes-like (possibly symbolic) sequence; io.BytesIO is C and would realize its content."""
    def __init__(self, data):
        self._d = data
        self._p = 0
        self.reads = []       # (start, stop) of every read, for 'touches only' obligations

    def read(self, n=-1):
        if n is None or n < 0:
            r = self._d[self._p:]
            self.reads.append((self._p, len(self._d)))
            self._p = len(self._d)
            return r
        r = self._d[self._p:self._p + n]
        if len(r):
            self.reads.append((self._p, self._p + len(r)))
        self._p += len(r)
        return r

    def readline(self, size=-1):
        d = self._d
        i = self._p
        n = len(d)
        while i < n:
            i += 1
            if d[i - 1] == 10:
                break
        r = d[self._p:i]
        self._p = i
        return r

    def __iter__(self):
        return self

    def __next__(self):
        r = self.readline()
        if len(r) == 0:
            raise StopIteration
        return r

    def readlines(self):
        out = []
        while True:
            r = self.readline()
            if len(r) == 0:
                return out
            out.append(r)

    def seek(self, off, whence=0):
        if whence == 0:
            self._p = off
        elif whence == 1:
            self._p += off
        else:
            self._p = len(self._d) + off
        return self._p

    def tell(self):
        return self._p

    def readable(self):
        return True

    def seekable(self):
        return True

    def writable(self):
        return False

    def close(self):
        pass

    @property
    def closed(self):
        return False

    def fileno(self):
        raise OSError('SymFile has no fileno')


class SymWFile(io.BufferedIOBase):
    """Write side: accumulates the written pieces; getvalue() joins them."""
    def __init__(self):
        self._parts = []
        self._n = 0

    def write(self, b):
        self._parts.append(b)
        self._n += len(b)
        return len(b)

    def tell(self):
        return self._n

    def getvalue(self):
        out = b''
        for p in self._parts:
            out = out + p
        return out

    def writable(self):
        return True

    def flush(self):
        pass

    def close(self):
        pass


class PyStruct:
    """struct.Struct stand-in that goes through the module-level struct functions, which CrossHair models symbolically."""
    def __init__(self, fmt):
        self.format = fmt
        self.size = struct.calcsize(fmt)

    def unpack(self, b):
        return struct.unpack(self.format, b)

    def unpack_from(self, b, offset=0):
        return struct.unpack(self.format, b[offset:offset + self.size])

    def pack(self, *args):
        return struct.pack(self.format, *args)


def shim_structs(module):
    """Replace every module-level struct.Struct attribute of `module` by a PyStruct of the same format."""
    done = []
    for k, v in list(vars(module).items()):
        if isinstance(v, struct.Struct):
            setattr(module, k, PyStruct(v.format))
            done.append(k)
    return done
