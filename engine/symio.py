import io
class SymFile(io.BufferedIOBase):
    """Pure-python file over a bytes-like (possibly symbolic) sequence."""
    def __init__(self, data):
        self._d = data
        self._p = 0
    def read(self, n=-1):
        if n is None or n < 0:
            r = self._d[self._p:]
            self._p = len(self._d)
            return r
        r = self._d[self._p:self._p + n]
        self._p += len(r)
        return r
    def seek(self, off, whence=0):
        if whence == 0: self._p = off
        elif whence == 1: self._p += off
        else: self._p = len(self._d) + off
        return self._p
    def tell(self): return self._p
    def readable(self): return True
    def seekable(self): return True
    def close(self): pass
