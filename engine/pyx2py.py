"""E2a: the Cython source cRepCode.pyx -> Python AST with explicit C conversions, encodable by py2smt.

Rewrites (text, then AST) exactly the constructs that appear in the file:
  def f(<ctype> p):            -> def f(p): p = __cconv__('<ctype>', p)        (Python -> C argument conversion, may raise OverflowError)
  cdef <ctype> v [= e]         -> v = __ccast__('<ctype>', e | 0)               (C conversion on initialisation)
  v = e / v op= e  (v typed)   -> v = __ccast__('<ctype>', ...)                 (C conversion on every assignment)
  <ctype> (e)                  -> __ccast__('<ctype>', e)
  m = frexp(v, &e)             -> m, e = __frexp__(v)
  ldexp(m, e)                  -> __ldexp__(m, e)                               (C ldexp: no exception on overflow)
Expression intermediates are evaluated as unbounded ints; with 32/64-bit typed operands and the constants in this file they cannot
exceed 64 bits, and py2smt's no-overflow side conditions check exactly that.
The same rewritten functions run concretely (helpers below) and are compared with the compiled extension built from the current
.pyx (build_cython_from_source) as translator validation.
"""
import ast
import importlib.util
import math
import os
import re
import shutil
import subprocess
import sys
import tempfile

import z3

from engine import py2smt as P

PYX = os.path.join(os.environ.get('VERIF_REPO') or '/repo', 'src/TotalDepth/LIS/core/src/cython/cRepCode.pyx')

CTYPES = {
    'int': (32, True), 'signed int': (32, True), 'unsigned int': (32, False), 'signed long long': (64, True), 'long long': (64, True),
    'signed char': (8, True), 'unsigned char': (8, False), 'signed short int': (16, True), 'short': (16, True),
    'unsigned short': (16, False), 'long': (64, True), 'unsigned long': (64, False), 'double': None,
}
_CT = '|'.join(sorted((re.escape(k) for k in CTYPES), key=len, reverse=True))


# ---- concrete helpers (used when the rewritten functions are simply executed)

def _wrap(v, bits, signed):
    v &= (1 << bits) - 1
    if signed and v >> (bits - 1):
        v -= 1 << bits
    return v


def __cconv__(ct, v):
    t = CTYPES[ct]
    if t is None:
        return float(v)
    bits, signed = t
    if isinstance(v, float):
        raise TypeError('an integer is required')
    lo, hi = (-(1 << (bits - 1)), (1 << (bits - 1)) - 1) if signed else (0, (1 << bits) - 1)
    if not lo <= v <= hi:
        raise OverflowError('value too large to convert to ' + ct)
    return v


def __ccast__(ct, v):
    t = CTYPES[ct]
    if t is None:
        return float(v)
    bits, signed = t
    if isinstance(v, float):
        v = int(v)      # C truncation (UB when out of range)
    return _wrap(v, bits, signed)


def __frexp__(v):
    return math.frexp(v)


def __ldexp__(m, e):
    try:
        return math.ldexp(m, e)
    except OverflowError:
        return math.copysign(math.inf, m)


# ---- symbolic helpers for py2smt (ctx.extra_calls)

def _sym_cconv(interp, args, kwargs, pc):
    ctx = interp.ctx
    ct, v = args
    t = CTYPES[ct]
    if t is None:
        return P.SFloat(ctx.lift_float(v))
    if isinstance(v, (P.SFloat, float)):
        ctx.raises.append((pc, 'TypeError'))
        return 0
    bits, signed = t
    lo, hi = (-(1 << (bits - 1)), (1 << (bits - 1)) - 1) if signed else (0, (1 << bits) - 1)
    e = ctx.lift_int(v)
    ctx.raises.append((z3.And(pc, z3.Or(e < ctx.int_val(lo), e > ctx.int_val(hi))), 'OverflowError'))
    return P.SInt(e)


def _sym_ccast(interp, args, kwargs, pc):
    ctx = interp.ctx
    ct, v = args
    t = CTYPES[ct]
    if t is None:
        return P.SFloat(ctx.lift_float(v)) if P.is_sym(v) else float(v)
    bits, signed = t
    if isinstance(v, float):
        v = int(v)
    if isinstance(v, P.SFloat):
        v = interp._float_to_int(v.e, P.RTZ, pc)
        lim = 1 << (bits - 1)
        ctx.side.append(z3.And(pc, z3.Or(v.e >= ctx.int_val(lim if signed else 2 * lim), v.e <= ctx.int_val(-lim - 1 if signed else -1))))  # C UB
    if not P.is_sym(v):
        return _wrap(v, bits, signed)
    e = ctx.lift_int(v)
    low = z3.Extract(bits - 1, 0, e)
    return ctx.from_bv(low, signed)


def _sym_frexp(interp, args, kwargs, pc):
    return interp.ctx.frexp(args[0], pc)


def _sym_ldexp(interp, args, kwargs, pc):
    r, ovf = interp.ctx.ldexp(args[0], args[1], pc)
    return r


def extra_calls():
    return {__cconv__: _sym_cconv, __ccast__: _sym_ccast, __frexp__: _sym_frexp, __ldexp__: _sym_ldexp}


# ---- the rewriting

class _TypeAssign(ast.NodeTransformer):
    def __init__(self, types):
        self.types = types

    def _cast(self, name, value):
        return ast.Call(func=ast.Name(id='__ccast__', ctx=ast.Load()), args=[ast.Constant(self.types[name]), value], keywords=[])

    def visit_Assign(self, node):
        self.generic_visit(node)
        if len(node.targets) == 1 and isinstance(node.targets[0], ast.Name) and node.targets[0].id in self.types:
            if not (isinstance(node.value, ast.Call) and getattr(node.value.func, 'id', '') in ('__ccast__', '__cconv__')):
                node.value = self._cast(node.targets[0].id, node.value)
        return node

    def visit_AugAssign(self, node):
        self.generic_visit(node)
        if isinstance(node.target, ast.Name) and node.target.id in self.types:
            load = ast.Name(id=node.target.id, ctx=ast.Load())
            new = ast.Assign(targets=[ast.Name(id=node.target.id, ctx=ast.Store())],
                             value=self._cast(node.target.id, ast.BinOp(left=load, op=node.op, right=node.value)))
            return ast.copy_location(new, node)
        return node


def pyx_to_python_source(text):
    out = []
    skip_extern = False
    for line in text.splitlines():
        if line.startswith('cdef extern'):
            skip_extern = True
            continue
        if skip_extern:
            if line.startswith((' ', '\t')) or not line.strip():
                continue
            skip_extern = False
        out.append(line)
    text = '\n'.join(out)
    funcs = {}

    def do_def(m):
        name, params = m.group(1), m.group(2)
        plist = []
        convs = []
        for p in [x.strip() for x in params.split(',') if x.strip()]:
            mm = re.match(r'^(%s)\s+(\w+)$' % _CT, p)
            if mm:
                plist.append(mm.group(2))
                convs.append((mm.group(2), mm.group(1)))
            else:
                plist.append(p)
        funcs[name] = dict(convs)
        body = ''.join('\n    %s = __cconv__(%r, %s)' % (n, ct, n) for n, ct in convs)
        return 'def %s(%s):%s' % (name, ', '.join(plist), body)
    # def lines: the docstring (if any) follows; conversions are placed before it, which is harmless
    text = re.sub(r'^def (\w+)\((.*?)\):', do_def, text, flags=re.M)
    cur = [None]
    lines = []
    for line in text.splitlines():
        m = re.match(r'^def (\w+)\(', line)
        if m:
            cur[0] = m.group(1)
        m = re.match(r'^(\s+)cdef\s+(%s)\s+(\w+)\s*(?:=\s*(.*))?$' % _CT, line)
        if m:
            ind, ct, var, init = m.groups()
            funcs[cur[0]][var] = ct
            fm = re.match(r'^frexp\((\w+),\s*&(\w+)\)$', (init or '').strip())
            if fm:
                line = '%s%s, %s = __frexp__(%s)' % (ind, var, fm.group(2), fm.group(1))
            else:
                line = '%s%s = __ccast__(%r, %s)' % (ind, var, ct, init if init is not None else '0')
        line = re.sub(r'(\w+)\s*=\s*frexp\((\w+),\s*&(\w+)\)', r'\1, \3 = __frexp__(\2)', line)
        line = re.sub(r'<\s*(%s)\s*>\s*\(' % _CT, lambda mm: '__ccast__(%r, ' % mm.group(1), line)
        line = re.sub(r'(?<![\w.])ldexp\s*\(', '__ldexp__(', line)
        lines.append(line)
    return '\n'.join(lines) + '\n', funcs


def load_pyx_functions(path=PYX):
    """{name: function} - functions carry __verif_ast__ so that py2smt encodes the rewritten AST."""
    with open(path) as f:
        text = f.read()
    src, types = pyx_to_python_source(text)
    tree = ast.parse(src)
    ns = {'__cconv__': __cconv__, '__ccast__': __ccast__, '__frexp__': __frexp__, '__ldexp__': __ldexp__, 'math': math,
          '__name__': 'TotalDepth.LIS.core.cRepCode_pyx'}
    new_body = []
    for node in tree.body:
        if isinstance(node, ast.FunctionDef):
            node = _TypeAssign(types.get(node.name, {})).visit(node)
            ast.fix_missing_locations(node)
        new_body.append(node)
    tree.body = new_body
    ast.fix_missing_locations(tree)
    exec(compile(tree, path, 'exec'), ns)
    out = {}
    for node in tree.body:
        if isinstance(node, ast.FunctionDef):
            fn = ns[node.name]
            fn.__verif_ast__ = node
            out[node.name] = fn
    return out


# ---- building the real extension from the current source (replay / translator validation)

_BUILT = {}


def build_cython_from_source(path=PYX):
    if path in _BUILT:
        return _BUILT[path]
    import sysconfig
    tmp = tempfile.mkdtemp(prefix='verif_cy_')
    try:
        name = 'cRepCode_verif'
        pyx = os.path.join(tmp, name + '.pyx')
        shutil.copy(path, pyx)
        subprocess.run(['/venv/bin/python', '-m', 'cython', '-3', pyx], check=True, capture_output=True, cwd=tmp)
        inc = sysconfig.get_paths()['include']
        so = os.path.join(tmp, name + sysconfig.get_config_var('EXT_SUFFIX'))
        subprocess.run(['gcc', '-shared', '-fPIC', '-O1', '-I', inc, os.path.join(tmp, name + '.c'), '-o', so, '-lm'], check=True, capture_output=True)
        spec = importlib.util.spec_from_file_location(name, so)
        mod = importlib.util.module_from_spec(spec)
        spec.loader.exec_module(mod)
        _BUILT[path] = mod
        return mod
    finally:
        shutil.rmtree(tmp, ignore_errors=True)
