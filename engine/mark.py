"""Reachability marker: harnesses call hit() at the point where the real assertion is evaluated."""
REACHED = False


def hit():
    global REACHED
    REACHED = True


def concretize(*vals):
    """Ask CrossHair for a concrete value of each argument (a fork node of the path tree per value: the search still has to exhaust
    every value allowed by the preconditions before it reports 'Confirmed over all paths').  Used for small structural selectors whose
    symbolic form only slows the path down (symbolic file positions, symbolic-length byte strings).  Identity outside CrossHair."""
    try:
        from crosshair import realize
    except Exception:
        return vals if len(vals) != 1 else vals[0]
    out = tuple(realize(v) for v in vals)
    return out if len(out) != 1 else out[0]


def pick(v, lo, hi):
    """Concrete int equal to v (lo <= v <= hi), obtained by ordinary branching (one fork per candidate value), which CrossHair's
    path tree exhausts reliably; `realize` was measured to revisit the same values many times."""
    for c in range(lo, hi):
        if v == c:
            return c
    return hi


def pickb(b):
    return True if b else False
