"""Reachability marker: harnesses call hit() at the point where the real assertion is evaluated."""
REACHED = False


def hit():
    global REACHED
    REACHED = True


def concretize(*vals):
    """Ask CrossHair for a concrete value of each argument (a fork node of the path tree per value: the search still has to exhaust
    every value allowed by the preconditions before it reports 'Confirmed over all paths').  Used for small structural selectors whose
    symbolic form only slows the path down (symbolic file positions, symbolic-length byte strings).  Identity outside CrossHair."""
    try:
        from crosshair import realize
    except Exception:
        return vals if len(vals) != 1 else vals[0]
    out = tuple(realize(v) for v in vals)
    return out if len(out) != 1 else out[0]


def pick(v, lo, hi):
    """Concrete int equal to v (lo <= v <= hi), obtained by ordinary branching (one fork per candidate value), which CrossHair's
    path tree exhausts reliably; `realize` was measured to revisit the same values many times."""
    for c in range(lo, hi):
        if v == c:
            return c
    return hi


def pickb(b):
    return True if b else False


class _Null:
    def __enter__(self):
        return self

    def __exit__(self, *a):
        return False


def untraced():
    """Context manager: run the enclosed code outside CrossHair's tracer.  ONLY for code whose inputs have all been made concrete
    with pick()/pickb(): the solver still enumerates every combination allowed by the preconditions (path-tree exhaustion), but the
    real code then runs natively on that concrete case (hundreds of times faster than traced execution)."""
    try:
        from crosshair.tracers import NoTracing, is_tracing
        if is_tracing():
            return NoTracing()
    except Exception:
        pass
    return _Null()


def pick_from(v, options):
    for c in options[:-1]:
        if v == c:
            return c
    return options[-1]
