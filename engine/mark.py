"""Reachability marker: harnesses call hit() at the point where the real assertion is evaluated."""
REACHED = False


def hit():
    global REACHED
    REACHED = True


def concretize(*vals):
    """Ask CrossHair for a concrete value of each argument (a fork node of the path tree per value: the search still has to exhaust
    every value allowed by the preconditions before it reports 'Confirmed over all paths').  Used for small structural selectors whose
    symbolic form only slows the path down (symbolic file positions, symbolic-length byte strings).  Identity outside CrossHair."""
    try:
        from crosshair import realize
    except Exception:
        return vals if len(vals) != 1 else vals[0]
    out = tuple(realize(v) for v in vals)
    return out if len(out) != 1 else out[0]
