"""Reachability marker: harnesses call hit() at the point where the real assertion is evaluated."""
REACHED = False


def hit():
    global REACHED
    REACHED = True
