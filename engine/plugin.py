import sys, os
sys.path.insert(0, os.path.join(os.environ.get("VERIF_HOME", "/verif"), "engine"))
import ch_bits
import ch_stats
