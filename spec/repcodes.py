"""Value formulas of the representation codes, written from the standards as exact z3 terms (the C07/C13 oracle).

LIS-79 Appendix B (codes 49, 50, 56, 66, 68, 70, 73, 77, 79) and RP66V1 Appendix B (FSINGL, ISINGL, VSINGL, FDOUBL, the integer
codes).  Every value is  m * 2**k  with integer m, |m| < 2**53, so it is built without rounding:  exact(m, k).
`bits` arguments are z3 bit-vectors of exactly the code's width (the bytes big-endian, first byte most significant).

Checked against the worked examples quoted in the repository (+-153 for every LIS code, RP66V1 B.5/B.6 examples) by
props/C07.py at every run (spec self-test): a spec that disagrees with the standard's own examples is a harness error.
"""
import z3

RNE = z3.RNE()
F64 = z3.Float64()
F32 = z3.Float32()
FW = z3.FPSort(15, 53)


def exact(m, k):
    """m * 2**k as binary64 (m: signed BV64, k: signed BV64 with |k| < 4000); rounds ONCE (and not at all when representable)."""
    biased = z3.Extract(14, 0, k + z3.BitVecVal(16383, 64))
    p = z3.fpFP(z3.BitVecVal(0, 1), biased, z3.BitVecVal(0, 52))
    wide = z3.fpMul(RNE, z3.fpSignedToFP(RNE, m, FW), p)
    return z3.fpToFP(RNE, wide, F64)


def exact_n(m, k):
    """As exact() for -1022 <= k <= 1023 only (plain binary64 product, still a single rounding)."""
    p = z3.fpFP(z3.BitVecVal(0, 1), z3.Extract(10, 0, k + z3.BitVecVal(1023, 64)), z3.BitVecVal(0, 52))
    return z3.fpMul(RNE, z3.fpSignedToFP(RNE, m, F64), p)


def _u(bv):
    return z3.ZeroExt(64 - bv.size(), bv)


def _s(bv):
    return z3.SignExt(64 - bv.size(), bv)


def bv64(v):
    return z3.BitVecVal(v, 64)


# ---- LIS-79

def lis49(w):      # 16 bits: 12-bit two's complement fraction (binary point after the sign bit), 4-bit unsigned exponent
    m = _s(z3.Extract(15, 4, w))
    e = _u(z3.Extract(3, 0, w))
    return exact_n(m, e - 11)


def lis50(w):      # 32 bits: 16-bit two's complement exponent, 16-bit two's complement fraction
    e = _s(z3.Extract(31, 16, w))
    m = _s(z3.Extract(15, 0, w))
    return exact(m, e - 15)


def lis56(w):
    return _s(w)


def lis66(w):
    return _u(w)


def lis68(w):      # sign, 8-bit excess-128 exponent (one's complemented when negative), 23-bit fraction, two's complement
    s = z3.Extract(31, 31, w)
    e = _u(z3.Extract(30, 23, w))
    fr = _u(z3.Extract(22, 0, w))
    m = z3.If(s == 1, fr - bv64(1 << 23), fr)
    k = z3.If(s == 1, bv64(127) - e, e - bv64(128))
    return exact_n(m, k - 23)


def lis70(w):      # 32-bit two's complement, binary point in the middle
    return exact_n(_s(w), bv64(-16))


def lis73(w):
    return _s(w)


def lis77(w):
    return _u(w)


def lis79(w):
    return _s(w)


LIS_SIZE = {49: 2, 50: 4, 56: 1, 66: 1, 68: 4, 70: 4, 73: 4, 77: 1, 79: 2}
LIS_SPEC = {49: lis49, 50: lis50, 56: lis56, 66: lis66, 68: lis68, 70: lis70, 73: lis73, 77: lis77, 79: lis79}
LIS_IS_FLOAT = {49, 50, 68, 70}

# worked examples from the standard as quoted in the repository's docstrings/tests: (code, word, value)
LIS_EXAMPLES = [
    (49, 0x4C88, 153.0), (49, 0xB388, -153.0),
    (50, 0x00084C80, 153.0), (50, 0x0008B380, -153.0),
    (56, 0x99 - 0x100 & 0xFF, -103), (66, 0x99, 153),
    (68, 0x444C8000, 153.0), (68, 0xBBB38000, -153.0),
    (70, 0x00994000, 153.25), (70, 0xFF66C000, -153.25),
    (73, 0x00000099, 153), (73, 0xFFFFFF67, -153),
    (77, 0x99, 153), (79, 0x0099, 153), (79, 0xFF67, -153),
]


# ---- RP66V1

def rp_fsingl(w):
    return z3.fpToFP(RNE, z3.fpBVToFP(w, F32), F64)


def rp_fdoubl(w):
    return z3.fpBVToFP(w, F64)


def ibm_single(w):     # sign, 7-bit excess-64 base-16 exponent, 24-bit fraction: (-1)^s * 0.f * 16**(e-64)
    s = z3.Extract(31, 31, w)
    e = _u(z3.Extract(30, 24, w))
    f = _u(z3.Extract(23, 0, w))
    m = z3.If(s == 1, -f, f)
    return exact_n(m, (e - bv64(64)) * 4 - 24)


def vax_single(by):
    """RP66V1 B.6 / RP66V2 11.3.23 as cited by the repository's tests: bytes b0..b3, s = b1[7], e = b1[6:0]:b0[7],
    f = b0[6:0]:b3:b2, value = (-1)^s * (0.5 + f/2**23) * 2**(e-128); e == 0 and s == 0 -> 0.
    NOTE: a DEC VAX F-float weighs f as f/2**24 (0.1f); the examples the repository quotes from the standard (153.0 =
    0C 44 00 80) only decode with the weight f/2**23, so the quoted examples win (DESIGN.md section 5, C07)."""
    b0, b1, b2, b3 = by
    s = z3.Extract(7, 7, b1)
    e = _u(z3.Concat(z3.Extract(6, 0, b1), z3.Extract(7, 7, b0)))
    f = _u(z3.Concat(z3.Extract(6, 0, b0), b3, b2))
    m = f + bv64(1 << 22)
    m = z3.If(s == 1, -m, m)
    v = exact_n(m, e - bv64(128) - 23)
    return z3.If(z3.And(e == 0, s == 0), z3.FPVal(0.0, F64), v)


RP_EXAMPLES_ISINGL = [(0x42990000, 153.0), (0xC2990000, -153.0), (0xC276A000, -118.625), (0x00000000, 0.0)]
RP_EXAMPLES_VSINGL = [(bytes([0x0c, 0x44, 0x00, 0x80]), 153.0), (bytes([0x0c, 0xC4, 0x00, 0x80]), -153.0), (bytes(4), 0.0)]
