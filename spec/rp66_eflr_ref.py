"""Reference encoder / expected table for RP66V1 explicitly formatted logical records (RP66V1 section 3.2), written from the standard.

Model:
  set:      (type bytes, name bytes or None)
  template: [attr]  attr = dict(role='ATTRIB'|'INVATR', label, count|None, rc|None, units|None, value|None)   (None = characteristic omitted)
  objects:  [(name (O, C, I), [comp])]  one comp per NON-invariant template attribute, in template order, trailing ones may be omitted;
            comp = None (omitted), dict(role='ABSATR') or dict(role='ATTRIB', count|None, rc|None, units|None, value|None)
Values are lists of ints encodable in the attribute's rep code (USHORT 15, UNORM 16, ULONG 17, UVARI 18) or bytes for IDENT 19.
"""

ROLE = dict(ABSATR=0x00, ATTRIB=0x20, INVATR=0x40, OBJECT=0x60, RDSET=0xa0, RSET=0xc0, SET=0xe0)      # RP66V1 3.2.2.1 figure 3-2
USHORT, UNORM, ULONG, UVARI, IDENT = 15, 16, 17, 18, 19


def ident(b):
    return bytes([len(b)]) + b


def uvari(v):
    if v < 0x80:
        return bytes([v])
    if v < 0x4000:
        return bytes([0x80 | (v >> 8), v & 0xff])
    return bytes([0xc0 | (v >> 24), (v >> 16) & 0xff, (v >> 8) & 0xff, v & 0xff])


def value_bytes(rc, v):
    if rc == USHORT:
        return bytes([v])
    if rc == UNORM:
        return bytes([v >> 8, v & 0xff])
    if rc == ULONG:
        return bytes([(v >> 24) & 0xff, (v >> 16) & 0xff, (v >> 8) & 0xff, v & 0xff])
    if rc == UVARI:
        return uvari(v)
    if rc == IDENT:
        return ident(v)
    raise ValueError(rc)


def obname(o, c, i):
    return uvari(o) + bytes([c]) + ident(i)


def _attr_bytes(role, label, count, rc, units, value, eff_rc, eff_count):
    d = ROLE[role] | (0x10 if label is not None else 0) | (0x08 if count is not None else 0) | (0x04 if rc is not None else 0) \
        | (0x02 if units is not None else 0) | (0x01 if value is not None else 0)
    out = bytes([d])
    if label is not None:
        out += ident(label)
    if count is not None:
        out += uvari(count)
    if rc is not None:
        out += bytes([rc])
    if units is not None:
        out += ident(units)
    if value is not None:
        assert len(value) == eff_count
        for v in value:
            out += value_bytes(eff_rc, v)
    return out


def encode(set_, template, objects):
    stype, sname = set_
    out = bytes([ROLE['SET'] | 0x10 | (0x08 if sname is not None else 0)]) + ident(stype)
    if sname is not None:
        out += ident(sname)
    for a in template:
        eff_rc = a['rc'] if a['rc'] is not None else IDENT
        eff_count = a['count'] if a['count'] is not None else 1
        out += _attr_bytes(a['role'], a['label'], a['count'], a['rc'], a['units'], a['value'], eff_rc, eff_count)
    variable = [a for a in template if a['role'] != 'INVATR']
    for name, comps in objects:
        out += bytes([ROLE['OBJECT'] | 0x10]) + obname(*name)
        for a, c in zip(variable, comps):
            if c is None:
                break
            if c['role'] == 'ABSATR':
                out += bytes([ROLE['ABSATR']])
                continue
            t_rc = a['rc'] if a['rc'] is not None else IDENT
            t_count = a['count'] if a['count'] is not None else 1
            eff_rc = c['rc'] if c['rc'] is not None else t_rc
            eff_count = c['count'] if c['count'] is not None else t_count
            out += _attr_bytes('ATTRIB', None, c['count'], c['rc'], c['units'], c['value'], eff_rc, eff_count)
    return out


def expected(set_, template, objects, absent_as_template=False):
    """(set type, set name, [labels], [(object name, [cell])]) with cell = None (absent) or (label, count, rc, units, value).
    absent_as_template=True is the oracle used while the known finding 'eflr_object_absatr_not_marked' is listed: an ABSATR cell is then
    expected to show the template's characteristics (everything else is still checked)."""
    stype, sname = set_
    tcells = []
    for a in template:
        tcells.append((a['label'], a['count'] if a['count'] is not None else 1, a['rc'] if a['rc'] is not None else IDENT,
                       a['units'] if a['units'] is not None else b'', a['value']))
    rows = []
    for name, comps in objects:
        cells = []
        k = 0
        stopped = False
        for a, t in zip(template, tcells):
            if a['role'] == 'INVATR':
                cells.append(t)
                continue
            c = comps[k] if k < len(comps) and not stopped else None
            k += 1
            if c is None:
                stopped = True
                cells.append(t)
            elif c['role'] == 'ABSATR':
                cells.append(t if absent_as_template else None)
            else:
                cells.append((t[0], c['count'] if c['count'] is not None else t[1], c['rc'] if c['rc'] is not None else t[2],
                              c['units'] if c['units'] is not None else t[3], c['value'] if c['value'] is not None else t[4]))
        rows.append((name, cells))
    return (stype, sname if sname is not None else b'', [t[0] for t in tcells], rows)
