"""Reference renderer of LAS 1.2 / 2.0 text from a content model with an explicit layout (CWLS LAS 2.0 specification), and the content a
reader must report.  Written from the standard, independent of TotalDepth's WriteLAS.

content = dict(vers=1.2|2.0, well=[(mnem, unit, value text, description)], curves=[(mnem, unit, description)], params=[...] or None,
               frames=[[cell text per curve]])        (the first cell of each frame is the index value)
layout  = dict(wrap=bool, lead=spaces before every section line, sep=spaces between data columns, comments=bool (a comment line after every
               section heading and before the first data row), blanks=bool (a blank line before every section), per_line=values per wrapped line,
               colon_pad=spaces around the ':' delimiter, comment_indent=white space before the '#' of comment lines)
"""

NULL = -999.25


def _line(mnem, unit, value, desc, lay):
    pad = ' ' * lay['colon_pad']
    return '%s%s.%s %s%s:%s%s\n' % (' ' * lay['lead'], mnem, unit, value, pad, pad, desc)


def render(content, lay):
    out = []

    def head(h):
        if lay['blanks']:
            out.append(lay.get('blank_fill', '') + '\n')       # a blank line: empty, or nothing but spaces / tabs
        # a section title may be indented too: '~' is the first non-blank character of its line (LAS 2.0, part 5)
        out.append(' ' * lay.get('head_lead', 0) + h + '\n')
        if lay['comments']:
            out.append(lay.get('comment_indent', '') + '#MNEM.UNIT      VALUE : DESCRIPTION\n')
    head('~Version Information')
    # the version number may be written with more digits (the LAS 1.2 standard itself writes 1.20)
    out.append(_line('VERS', '', lay.get('vers_fmt', '%.1f') % content['vers'], 'CWLS LOG ASCII STANDARD -VERSION %.1f' % content['vers'], lay))
    out.append(_line('WRAP', '', 'YES' if lay['wrap'] else 'NO', 'One line per depth step' if not lay['wrap'] else 'Multiple lines per depth step', lay))
    head('~Well Information')
    for m, u, v, d in content['well']:
        out.append(_line(m, u, v, d, lay))
    head('~Curve Information')
    for m, u, d in content['curves']:
        out.append(_line(m, u, '', d, lay))
    if content.get('params'):
        head('~Parameter Information')
        for m, u, v, d in content['params']:
            out.append(_line(m, u, v, d, lay))
    head('~A  ' + '  '.join(c[0] for c in content['curves']))
    sep = ' ' * lay['sep']
    for fr in content['frames']:
        if not lay['wrap']:
            out.append(' ' * lay['lead'] + sep.join(fr) + '\n')
        else:
            out.append(' ' * lay['lead'] + fr[0] + '\n')         # LAS 2.0 5.2: the index is on its own line in wrap mode
            rest = fr[1:]
            k = lay['per_line']
            for i in range(0, len(rest), k):
                out.append(' ' * lay['lead'] + sep.join(rest[i:i + k]) + '\n')
        if lay['comments'] and fr is content['frames'][0]:
            out.append(lay.get('comment_indent', '') + '# a comment between data rows\n')
        if lay['blanks']:
            out.append(lay.get('blank_fill', '') + '\n')       # blank lines between (and after) the data rows too
    return ''.join(out)


def typed(text):
    """LAS value typing: integer, float, yes/no, else the text itself."""
    t = text.strip()
    try:
        return int(t)
    except ValueError:
        pass
    try:
        return float(t)
    except ValueError:
        pass
    if t.lower() == 'yes':
        return True
    if t.lower() == 'no':
        return False
    return t


def cell_value(text):
    try:
        return float(text)
    except ValueError:
        return NULL
