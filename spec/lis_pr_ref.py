"""Reference decoder of the LIS-79 physical record layer (LIS-79 section 2.3.1) with optional TIF markers, written from the standard.

decode(buf, tif) -> list of (lr_start_position, payload bytes) or raises LayoutError describing the first deviation from the format.
Physical record = header (2-byte big-endian length incl. header and trailer; 2-byte attributes) + data + trailer
(record number, file number, checksum: 2 bytes each when attribute bits 9, 10, 12 are set).  Attribute bit 0 = has successor,
bit 1 = has predecessor.  TIF marker = three little-endian 32-bit words (type, back, next) before each physical record; the file ends
with two markers of type 1.
"""


class LayoutError(Exception):
    pass


def _u16(b, p):
    return (b[p] << 8) | b[p + 1]


def _u32le(b, p):
    return b[p] | (b[p + 1] << 8) | (b[p + 2] << 16) | (b[p + 3] << 24)


def checksum(b):
    """LIS-79 physical record checksum of the bytes before it (header, data, record and file number): the 16-bit words are added with
    end-around carry, the sum being rotated left by one bit after every word; it starts from zero for every physical record."""
    c = 0
    for i in range(0, len(b) - 1, 2):
        c += (b[i] << 8) | b[i + 1]
        if c > 0xffff:
            c = (c & 0xffff) + 1
        c = ((c << 1) & 0xffff) | (c >> 15)
    return c


def decode(buf, tif):
    pos = 0
    n = len(buf)
    out = []
    pr_index = 0
    cur = None
    cur_start = None
    prev_marker = 0
    first = True
    expect_succ = False
    while pos < n:
        start = pos
        if tif:
            if n - pos < 12:
                raise LayoutError('truncated TIF marker at %d' % pos)
            ty, back, nxt = _u32le(buf, pos), _u32le(buf, pos + 4), _u32le(buf, pos + 8)
            if back != (0 if first else prev_marker):
                raise LayoutError('TIF back pointer %d at %d, expected %d' % (back, pos, prev_marker))
            if ty == 1:
                # two EOF markers end the file
                if nxt != pos + 12:
                    raise LayoutError('EOF marker next %d at %d' % (nxt, pos))
                if n - pos != 24:
                    raise LayoutError('EOF markers not at the end')
                ty2, back2, nxt2 = _u32le(buf, pos + 12), _u32le(buf, pos + 16), _u32le(buf, pos + 20)
                if (ty2, back2, nxt2) != (1, pos, pos + 24):
                    raise LayoutError('second EOF marker %r' % ((ty2, back2, nxt2),))
                pos = n
                break
            if ty != 0:
                raise LayoutError('TIF type %d' % ty)
            prev_marker = pos
            pos += 12
        if n - pos < 4:
            raise LayoutError('truncated physical record header at %d' % pos)
        ln, attr = _u16(buf, pos), _u16(buf, pos + 2)
        tail = (2 if attr & (1 << 9) else 0) + (2 if attr & (1 << 10) else 0) + (2 if attr & (1 << 12) else 0)
        if attr & ~((1 << 0) | (1 << 1) | (1 << 9) | (1 << 10) | (1 << 12)):
            raise LayoutError('unexpected attribute bits %#x' % attr)
        if ln < 4 + tail or pos + ln > n:
            raise LayoutError('physical record length %d at %d' % (ln, pos))
        if tif and nxt != pos + ln:
            raise LayoutError('TIF next %d, record ends at %d' % (nxt, pos + ln))
        succ, pred = bool(attr & 1), bool(attr & 2)
        if pred != expect_succ:
            raise LayoutError('predecessor bit %r at %d but previous successor bit %r' % (pred, pos, expect_succ))
        if attr & (1 << 9):
            # the record number is a 16-bit count of the physical records written so far (starting at 0, wrapping at 65536)
            if _u16(buf, pos + ln - tail) != pr_index % 65536:
                raise LayoutError('physical record %d carries record number %d' % (pr_index, _u16(buf, pos + ln - tail)))
        if attr & (1 << 12):
            if _u16(buf, pos + ln - 2) != checksum(buf[pos:pos + ln - 2]):
                raise LayoutError('physical record %d carries checksum %#06x, the checksum of its bytes is %#06x' % (pr_index, _u16(buf, pos + ln - 2), checksum(buf[pos:pos + ln - 2])))
        pr_index += 1
        data = buf[pos + 4:pos + ln - tail]
        if not pred:
            cur, cur_start = data, start
        else:
            cur = cur + data
        if not succ:
            out.append((cur_start, cur))
            cur = None
        expect_succ = succ
        first = False
        pos += ln
    if expect_succ:
        raise LayoutError('file ends inside a logical record')
    if tif and pos != n:
        raise LayoutError('no EOF markers')
    return out
