"""Concrete (plain Python, exact rational) twin of spec/repcodes.py, used by replays and to self-test the z3 spec."""
from fractions import Fraction


def _s(v, bits):
    v &= (1 << bits) - 1
    return v - (1 << bits) if v >> (bits - 1) else v


def _val(m, k):
    """m * 2**k as the nearest double (exact when representable); OverflowError -> inf."""
    fr = Fraction(m) * (Fraction(2) ** k)
    try:
        return float(fr)
    except OverflowError:
        return float('inf') if fr > 0 else float('-inf')


def lis49(w):
    return _val(_s(w >> 4, 12), (w & 0xF) - 11)


def lis50(w):
    return _val(_s(w, 16), _s(w >> 16, 16) - 15)


def lis56(w):
    return _s(w, 8)


def lis66(w):
    return w & 0xFF


def lis68(w):
    s, e, fr = (w >> 31) & 1, (w >> 23) & 0xFF, w & 0x7FFFFF
    m = fr - (1 << 23) if s else fr
    k = 127 - e if s else e - 128
    return _val(m, k - 23)


def lis70(w):
    return _val(_s(w, 32), -16)


def lis73(w):
    return _s(w, 32)


def lis77(w):
    return w & 0xFF


def lis79(w):
    return _s(w, 16)


LIS = {49: lis49, 50: lis50, 56: lis56, 66: lis66, 68: lis68, 70: lis70, 73: lis73, 77: lis77, 79: lis79}


def ibm_single(w):
    s, e, f = (w >> 31) & 1, (w >> 24) & 0x7F, w & 0xFFFFFF
    return _val(-f if s else f, (e - 64) * 4 - 24)


def vax_single(by):
    b0, b1, b2, b3 = by
    s = b1 >> 7
    e = ((b1 & 0x7F) << 1) | (b0 >> 7)
    f = ((b0 & 0x7F) << 16) | (b3 << 8) | b2
    if e == 0 and s == 0:
        return 0.0
    m = f + (1 << 22)
    return _val(-m if s else m, e - 128 - 23)
