"""Reference model of the RP66V1 physical layout (RP66V1 section 2: storage unit label, visible records, logical record segments).

A *file model* is a list of logical records; each logical record is (is_eflr, type, [segments]); each segment is a dict with
  payload (bytes), pad (0 = no padding flag, n >= 1 = pad count incl. the count byte), checksum (bool), trailing (bool), encrypted (bool),
  new_vr (bool: this segment starts a new visible record; forced for the first segment of the file).
encode() lays the model out exactly as the standard prescribes; the expected result of a read is the model itself.
Written from the standard, independent of TotalDepth's reader.
"""

SUL = b'0001V1.00RECORD08192' + b'Default Storage Set'.ljust(60)


def segment_bytes(is_eflr, rtype, first, last, seg):
    attr = (0x80 if is_eflr else 0) | (0 if first else 0x40) | (0 if last else 0x20) | (0x10 if seg['encrypted'] else 0) \
        | (0x04 if seg['checksum'] else 0) | (0x02 if seg['trailing'] else 0) | (0x01 if seg['pad'] else 0)
    body = seg['payload']
    if seg['pad']:
        body = body + pad_bytes(seg)
    length = 4 + len(body) + (2 if seg['checksum'] else 0) + (2 if seg['trailing'] else 0)
    out = bytes([length >> 8, length & 0xff, attr, rtype]) + body
    if seg['checksum']:
        out = out + b'\xc5\x5c'
    if seg['trailing']:
        out = out + bytes([length >> 8, length & 0xff])
    return out


def pad_bytes(seg):
    """The pad bytes of a segment: pad count in the last byte.  In an ENCRYPTED segment the padding is part of the encrypted data, so what is
    on the medium there is arbitrary: 0xF7 stands in for it (deliberately larger than any segment body used here)."""
    if seg['encrypted']:
        return bytes([0xA5] * (seg['pad'] - 1)) + bytes([0xF7])
    return bytes([0] * (seg['pad'] - 1)) + bytes([seg['pad']])


def conformant_segment(seg):
    """Segment length even and >= 16 (RP66V1 2.2.2.1)."""
    n = 4 + len(seg['payload']) + (seg['pad'] or 0) + (2 if seg['checksum'] else 0) + (2 if seg['trailing'] else 0)
    return n >= 16 and n % 2 == 0


def encode(records, sul=SUL):
    """Returns (file bytes, layout) where layout[i] = (vr_position, lrsh_position of first segment, [(vr_pos, seg_pos, seg_len)...])."""
    vrs = []          # list of lists of segment byte strings
    index = []        # per record: list of (vr_index, offset_in_vr_body)
    for r, (is_eflr, rtype, segs) in enumerate(records):
        locs = []
        for i, seg in enumerate(segs):
            sb = segment_bytes(is_eflr, rtype, i == 0, i == len(segs) - 1, seg)
            if seg['new_vr'] or not vrs:
                vrs.append([])
            off = 0
            for x in vrs[-1]:
                off += len(x)
            vrs[-1].append(sb)
            locs.append((len(vrs) - 1, off, len(sb)))
        index.append(locs)
    out = sul
    vr_pos = []
    for body in vrs:
        n = 4
        for x in body:
            n += len(x)
        vr_pos.append(len(out))
        out = out + bytes([n >> 8, n & 0xff, 0xff, 0x01])
        for x in body:
            out = out + x
    layout = []
    for locs in index:
        segs = [(vr_pos[v], vr_pos[v] + 4 + off, ln) for v, off, ln in locs]
        layout.append((segs[0][0], segs[0][1], segs))
    return out, layout


def expected(records):
    """What a sequential read must yield: (is_eflr, type, payload with every segment's payload concatenated)."""
    out = []
    for is_eflr, rtype, segs in records:
        pl = b''
        for s in segs:
            pl = pl + s['payload']
            if s['encrypted'] and s['pad']:
                # pad bytes of an encrypted segment are inside the encrypted data and cannot be identified: they stay (RP66V1 2.2.2.1 note)
                pl = pl + pad_bytes(s)
        out.append((is_eflr, rtype, pl))
    return out
