"""Reference encoder of LIS-79 logical records (file header/trailer, table records, data format specification, data records) and of a
complete small LIS file, written from the standard (LIS-79 sections 3 and 4), independent of TotalDepth's LogiRec writer classes.

All multi-byte integers big-endian.  Rep code 73 = 32-bit two's complement, 66 = unsigned byte, 79 = 16-bit two's complement,
65 = text, 68 = LIS float (spec/repcodes_ref.lis68 is its decoder; encode68 below is exact for the values used here).
"""
from fractions import Fraction


def u16(v):
    return bytes([(v >> 8) & 0xff, v & 0xff])


def i32(v):
    v &= 0xffffffff
    return bytes([(v >> 24) & 0xff, (v >> 16) & 0xff, (v >> 8) & 0xff, v & 0xff])


def i16(v):
    return u16(v & 0xffff)


def encode68(v):
    """LIS code 68 word of a value that is exactly representable (m * 2**k with 23 fraction bits)."""
    if v == 0:
        return bytes([0x40, 0, 0, 0])
    fr = Fraction(v)
    neg = fr < 0
    a = -fr if neg else fr
    e = 0
    while a >= 1:
        a /= 2
        e += 1
    while a < Fraction(1, 2):
        a *= 2
        e -= 1
    m = a * (1 << 23)
    if m.denominator != 1:
        raise ValueError('not exactly representable in code 68: %r' % (v,))
    m = int(m)
    if neg:
        # two's complement fraction, one's complemented excess-128 exponent
        if m == (1 << 22):      # -0.5 * 2**e  ==  -1.0 * 2**(e-1)
            m, e = 1 << 23, e - 1
        word = (1 << 31) | ((127 - e) & 0xff) << 23 | ((1 << 23) - m) & 0x7fffff
    else:
        word = ((128 + e) & 0xff) << 23 | m
    return i32(word)


def file_head_tail(lr_type, name=b'VERIF .001', prev=b'          '):
    body = name.ljust(10)[:10] + b'  ' + b'SUBLEV' + b'VERS 1.0' + b'26/10/03' + b' ' + b' 1024' + b'  ' + b'LO' + b'  ' + prev.ljust(10)[:10]
    assert len(body) == 56
    return bytes([lr_type, 0]) + body


def component_block(cb_type, rc, value_bytes, mnem, units=b'    ', category=0):
    return bytes([cb_type, rc, len(value_bytes), category]) + mnem.ljust(4)[:4] + units.ljust(4)[:4] + value_bytes


def table_record(lr_type, table_name, rows):
    """rows: list of (row name bytes, [(column mnem, rep code, value bytes, units)])."""
    out = bytes([lr_type, 0]) + component_block(73, 65, table_name.ljust(4)[:4], b'TYPE')
    for name, cells in rows:
        out += component_block(0, 65, name.ljust(4)[:4], b'MNEM')
        for mnem, rc, vb, units in cells:
            out += component_block(69, rc, vb, mnem, units)
    return out


def entry_block(eb_type, rc, value_bytes):
    return bytes([eb_type, len(value_bytes), rc]) + value_bytes


def dsb(mnem, units, size, samples, rc, api=0, file_number=1):
    b = mnem.ljust(4)[:4] + b'SERVID' + b'SERVORD ' + units.ljust(4)[:4] + i32(api) + i16(file_number) + i16(size) + b'\x00\x00\x00' + bytes([samples, rc]) + b'\x00' * 5
    assert len(b) == 40
    return b


def dfsr(channels, indirect, up=True, spacing=60, depth_rc=73, data_type=0, spacing_units=b'.1IN', depth_units=b'.1IN'):
    """channels: list of (mnem, units, size, samples, rep code)."""
    ebs = [entry_block(1, 66, bytes([data_type])), entry_block(2, 66, b'\x00'), entry_block(4, 66, bytes([1 if up else 255])),
           entry_block(8, 73, i32(spacing)), entry_block(9, 65, spacing_units), entry_block(12, 68, encode68(-999.25)),
           entry_block(13, 66, bytes([1 if indirect else 0])), entry_block(14, 65, depth_units), entry_block(15, 66, bytes([depth_rc]))]
    body = b''.join(ebs)
    # terminator: size chosen so that the entry block set has even length (LIS-79 4.1.6)
    if (len(body) + 3) % 2:
        body += entry_block(0, 66, b'\x00')
    else:
        body += bytes([0, 0, 66])
    out = bytes([64, 0]) + body
    for c in channels:
        out += dsb(*c)
    return out


def data_record(frames, x_first=None, data_type=0):
    """frames: list of per-frame bytes; x_first: bytes of the implied X of the first frame (indirect X mode) or None."""
    out = bytes([data_type, 0])
    if x_first is not None:
        out += x_first
    for f in frames:
        out += f
    return out


def physical(lrs, tif=False, max_payload=None, pad_modulo=0):
    """Wrap logical records into physical records (no trailer), optionally TIF-marked.  Returns (bytes, [start position of each LR]).
    pad_modulo (2 or 4, plain files only): every physical record is followed by NUL bytes up to the next multiple of pad_modulo, as
    some tape-to-disk copies do (the reader has an option for it: File.file_read_with_best_physical_record_pad_settings)."""
    out = b''
    pos = []
    prev = 0
    for lr in lrs:
        chunks = [lr] if not max_payload else [lr[i:i + max_payload] for i in range(0, len(lr), max_payload)]
        for k, ch in enumerate(chunks):
            attr = (1 if k < len(chunks) - 1 else 0) | (2 if k > 0 else 0)
            pr = u16(4 + len(ch)) + u16(attr) + ch
            here = len(out)
            if k == 0:
                pos.append(here)
            if tif:
                nxt = here + 12 + len(pr)
                out += _le32(0) + _le32(prev) + _le32(nxt)
                prev = here
            out += pr
            if pad_modulo and not tif and len(out) % pad_modulo:
                out += b'\x00' * (pad_modulo - len(out) % pad_modulo)
    if tif:
        here = len(out)
        out += _le32(1) + _le32(prev) + _le32(here + 12)
        out += _le32(1) + _le32(here) + _le32(here + 24)
    return out, pos


def _le32(v):
    return bytes([v & 0xff, (v >> 8) & 0xff, (v >> 16) & 0xff, (v >> 24) & 0xff])
