"""Reference builder of complete small RP66V1 files (storage unit label, visible records, EFLRs FILE-HEADER / ORIGIN / CHANNEL / FRAME /
PARAMETER, frame-data IFLRs, encrypted records), written from RP66V1 sections 2, 3 and 5.  Uses spec/rp66_ref.py for the physical layout
and spec/rp66_eflr_ref.py for the component encoding.
"""
from spec import rp66_eflr_ref as E
from spec import rp66_ref as R

ASCII, OBNAME, UNITS, SLONG, FSINGL, DTIME = 20, 23, 27, 14, 2, 21


def value_bytes(rc, v):
    if rc == ASCII:
        return E.uvari(len(v)) + v
    if rc == UNITS:
        return E.ident(v)
    if rc == OBNAME:
        return E.obname(*v)
    if rc == DTIME:
        y, mo, d, h, mi, sec, ms = v
        return bytes([y - 1900, mo, d, h, mi, sec, ms >> 8, ms & 0xff])          # time zone 0 = local standard
    return E.value_bytes(rc, v)


def _attr(label, rc, count=None):
    return bytes([E.ROLE['ATTRIB'] | 0x10 | (0x08 if count is not None else 0) | 0x04]) + E.ident(label) + (E.uvari(count) if count is not None else b'') + bytes([rc])


def _cell(rc, values, count=None):
    # object attribute component: value only (count given when it differs from the template)
    d = E.ROLE['ATTRIB'] | 0x01 | (0x08 if count is not None else 0)
    out = bytes([d]) + (E.uvari(count) if count is not None else b'')
    for v in values:
        out += value_bytes(rc, v)
    return out


def eflr(set_type, columns, rows, role='SET', name=None):
    """columns: [(label, rc)]; rows: [(obname tuple, [list of values per column])]; role: SET, RSET (replacement set) or RDSET (redundant
    set); name: the optional set name."""
    out = bytes([E.ROLE[role] | 0x10 | (0x08 if name is not None else 0)]) + E.ident(set_type) + (E.ident(name) if name is not None else b'')
    for label, rc in columns:
        out += _attr(label, rc)
    for name, cells in rows:
        out += bytes([E.ROLE['OBJECT'] | 0x10]) + E.obname(*name)
        for (label, rc), vals in zip(columns, cells):
            out += _cell(rc, vals, None if len(vals) == 1 else len(vals))
    return out


def file_header(seq=1):
    return eflr(b'FILE-HEADER', [(b'SEQUENCE-NUMBER', ASCII), (b'ID', ASCII)], [((2, 0, b'0'), [[str(seq).rjust(10).encode()], [b'VERIF'.ljust(65)]])])


def origin(file_id=b'VERIF-FILE'):
    cols = [(b'FILE-ID', ASCII), (b'CREATION-TIME', DTIME), (b'WELL-NAME', ASCII), (b'FIELD-NAME', ASCII), (b'PRODUCER-NAME', ASCII), (b'COMPANY', ASCII)]
    return eflr(b'ORIGIN', cols, [((2, 0, b'DLIS_DEFINING_ORIGIN'), [[file_id], [(2026, 10, 3, 12, 30, 15, 250)], [b'WELL'], [b'FIELD'], [b'PRODUCER'], [b'COMPANY']])])


def parameter(k=0):
    return eflr(b'PARAMETER', [(b'LONG-NAME', ASCII), (b'VALUES', E.UNORM)], [((2, 0, b'P' + bytes([48 + k])), [[b'param'], [300 + k]])])


def channel(channels):
    """channels: [(name, rep code, units, dimension list)]."""
    rows = [((2, 0, n), [[n + b' long'], [rc], [u], dims]) for n, rc, u, dims in channels]
    return eflr(b'CHANNEL', [(b'LONG-NAME', ASCII), (b'REPRESENTATION-CODE', E.USHORT), (b'UNITS', UNITS), (b'DIMENSION', E.UVARI)], rows)


def frame(frames):
    """frames: [(frame object name, [channel names])]."""
    rows = [((2, 0, fn), [[b'frame ' + fn], [(2, 0, c) for c in chs]]) for fn, chs in frames]
    return eflr(b'FRAME', [(b'DESCRIPTION', ASCII), (b'CHANNELS', OBNAME)], rows)


def iflr(frame_name, frame_number, data):
    return E.obname(2, 0, frame_name) + E.uvari(frame_number) + data


def record(is_eflr, rtype, payload, encrypted=False, new_vr=False):
    """One logical record in one segment: padded to an even length >= 16 (pad count in the last byte)."""
    seg = dict(payload=payload, pad=0, checksum=False, trailing=False, encrypted=encrypted, new_vr=new_vr)
    n = 4 + len(payload)
    pad = 0
    if n < 16:
        pad = 16 - n
    if (n + pad) % 2:
        pad += 1
    if encrypted and not pad:
        pad = 2           # always exercise 'encrypted + padding attribute': the pad bytes stay part of the (opaque) record body
    seg['pad'] = pad
    return (is_eflr, rtype, [seg])


def record_split(is_eflr, rtype, payload, first, trailing=False, checksum=False, new_vr=False, second_vr=False):
    """One logical record in two segments: the first carries payload[:first] (first even, >= 12 so that the segment has the minimum length
    of 16 with no padding), the second the rest.  trailing / checksum put a trailing length / a checksum on BOTH segments (RP66V1 2.2.2.1:
    every segment has its own trailer).  The second segment follows in the same visible record unless second_vr."""
    assert first % 2 == 0 and 12 <= first <= len(payload)
    s0 = dict(payload=payload[:first], pad=0, checksum=checksum, trailing=trailing, encrypted=False, new_vr=new_vr)
    rest = payload[first:]
    extra = (2 if trailing else 0) + (2 if checksum else 0)
    n = 4 + len(rest) + extra
    pad = 0
    if n < 16:
        pad = 16 - n
    if (n + pad) % 2:
        pad += 1
    s1 = dict(payload=rest, pad=pad, checksum=checksum, trailing=trailing, encrypted=False, new_vr=second_vr)
    return (is_eflr, rtype, [s0, s1])


def build(records):
    return R.encode(records)
