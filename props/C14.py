"""C14 DAT mud-log files parse to their declared channels and values (DESIGN.md section 5, C14)."""
import z3

from engine import py2smt as P
from engine import re2smt
from engine.core import Ob

CLAIM = dict(
    engine='crosshair+re2smt',
    technique='CrossHair-driven exploration of DAT_parser.parse_file / can_parse_file over DAT text generated from a content model with symbolic declaration order, '
              'header subset, row count, separator, date spelling, year/month and a symbolic single-line corruption; z3 regular-expression inclusion for the declaration and date patterns',
    text='Bounded symbolic checking: for 4 declaration orders, 4 header subsets, 0..2 data rows, blank or tab separators, both date spellings, 6 two-digit years on both sides of '
         'the century window and every month, the parsed frame array has one channel per header name in header order with the description and units of its declaration and one '
         'frame per data line with floats and the UTC datetime / date / time objects; with a value removed or added on any data line, a value that is not a number or a date that is not a date, an undeclared name on the header line or a '
         'garbage declaration line, parse_file raises a DAT error and never returns. The declaration and date regular expressions are shown to accept every spelling of the '
         'stated shapes (language inclusion).',
    note='Trusted: CrossHair, z3 sequence theory, numpy storage; time.gmtime / strptime (C library). Selectors are made concrete by solver-enumerated branching and the parser then '
         'runs natively. Outside: UTIM values outside the platform time_t range, non-ASCII text, more than 2 data rows.',
)
META = dict(
    explanation='Content model -> text -> real parser, compared with the model; corruptions must be rejected with ExceptionDAT.',
    trusted_base=['crosshair-tool', 'z3', 'numpy', 'time.gmtime/strptime'],
    outside=['very large UTIM values', '> 2 data rows'],
    assumptions=[],
)


def ob_regex(name, spec_builder, what):
    def fn():
        from TotalDepth.DAT import DAT_parser
        rx = getattr(DAT_parser, name)
        whole = re2smt.to_z3(rx)
        s = z3.String('s')
        assume, n = spec_builder(s)
        r = P.decide(assume, [z3.InRe(s, whole)], names=['s'], timeout_s=60)
        r['functions'] = ['DAT_parser.%s pattern %r' % (name, re2smt.pattern_text(rx))]
        return r

    def replay(m):
        from TotalDepth.DAT import DAT_parser
        s = m.get('s', '')
        return getattr(DAT_parser, name).match(s) is None, '%s does not match %r' % (name, s)
    return Ob('regex_%s_accepts_%s' % (name, what), 'smt', 'every string of the stated shape up to 24 characters', ['DAT_parser.' + name], fn=fn, replay=replay)


def _spec_decl(s):
    up = z3.Union(z3.Range('A', 'Z'), z3.Range('0', '9'))
    word = z3.Plus(z3.Union(z3.Range('a', 'z'), z3.Range('A', 'Z'), z3.Range('0', '9'), z3.Re('('), z3.Re(')'), z3.Re('-')))
    desc = z3.Concat(word, z3.Star(z3.Concat(z3.Plus(z3.Re(' ')), word)))
    units = z3.Plus(z3.Union(z3.Range('a', 'z'), z3.Range('A', 'Z'), z3.Re('/'), z3.Re('%')))
    spec = z3.Concat(z3.Plus(up), z3.Re(' '), desc, z3.Re(' '), units)
    return [z3.InRe(s, spec), z3.Length(s) <= 24], 24


def _spec_date_a(s):
    mon = z3.Union(*[z3.Re(m) for m in ('Jan', 'Feb', 'Mar', 'Apr', 'May', 'Jun', 'Jul', 'Aug', 'Sep', 'Oct', 'Nov', 'Dec')])
    d = z3.Range('0', '9')
    return [z3.InRe(s, z3.Concat(z3.Loop(d, 1, 2), mon, z3.Loop(d, 2, 2)))], 7


def _spec_date_b(s):
    mon = z3.Union(*[z3.Re(m) for m in ('Jan', 'Feb', 'Mar', 'Apr', 'May', 'Jun', 'Jul', 'Aug', 'Sep', 'Oct', 'Nov', 'Dec')])
    d = z3.Range('0', '9')
    return [z3.InRe(s, z3.Concat(z3.Loop(d, 1, 2), z3.Re('-'), mon, z3.Re('-'), z3.Loop(d, 2, 2)))], 9


def obligations(tier):
    q = tier == 'quick'
    return [
        ob_regex('RE_CHANNEL_DEFINITION', _spec_decl, 'name_description_units'),
        ob_regex('RE_DATE_STYLE_A', _spec_date_a, 'ddMonyy'),
        ob_regex('RE_DATE_STYLE_B', _spec_date_b, 'dd-Mon-yy'),
        Ob('dat_parse_and_reject', 'ch', '4 declaration orders, 4 header subsets, 0..2 rows, blank/tab, 2 date spellings (year with or without a leading zero), 6 years x 3 months (4 thorough), LF or CRLF line ends with or without a final one; process time zone UTC / +5:30 / -8; the same file object probed and parsed repeatedly; corruption none/missing value/extra value/undeclared name/garbage declaration/a value that is not a number/a date that is not a date (rejected with the DAT error, and the probe answers no)',
           ['DAT.DAT_parser._parse_file/parse_file/can_parse_file', '_unit_unix_time_to_datetime_datetime', '_unit_ddmmyy_to_datetime_date', '_unit_hhmmyy_to_datetime_time',
            '_ret_conversion_function', '_numpy_dtype', 'common.LogPass.FrameArray/FrameChannel'],
           harness='C14_dat', func='dat_files_q' if q else 'dat_files', timeout=280 if q else 1500, parts=28),
    ]
