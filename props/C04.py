"""C04 DLIS frame arrays hold exactly the recorded values; sub-selection commutes (DESIGN.md section 5, C04)."""
from engine.core import Ob

CLAIM = dict(
    engine='crosshair',
    technique='CrossHair-driven exploration of LogicalIndex + LogicalFile.populate_frame_array on complete RP66V1 files built by a reference encoder (symbolic IFLR '
              'interleaving, empty records, frame slice / sample, channel subset, earlier population), and symbolic execution of read / read_partial on symbolic data bytes',
    text='Bounded symbolic checking: for files with one or two frame types whose data records are interleaved in five orders, an optional empty data record and either visible-record '
         'layout, the index holds one entry per non-empty record with its frame number, first-channel value and position; populating with no selector, every Slice(start -2..3, stop -2..5, '
         'step 1..3) or Sample(1..3), every channel subset and after an earlier different population gives exactly the selected rows, numpy dtype and shape per representation code, '
         'first channel always present, unselected channels empty. RP66V1FrameArray.read / read_partial are executed on 10 fully symbolic data bytes with a list-backed array.',
    note='Trusted: CrossHair, spec/rp66_file_ref.py (+ rp66_ref, rp66_eflr_ref), SymFile; numpy itself for storage (file-level obligation runs natively after the structure is chosen by the solver); '
         'list-backed numpy stand-in in the symbolic-bytes obligation. Outside: float rep codes, more than 6 data records, channels with more than 2 elements.',
)
META = dict(
    explanation='File-level obligation: structure selectors are made concrete by solver-enumerated branching, then the real index/populate code runs natively. '
                'Byte-level obligation: symbolic bytes through the real channel readers.',
    trusted_base=['crosshair-tool + ch_bits', 'reference RP66V1 builders in spec/', 'numpy (storage)'],
    outside=['FSINGL/FDOUBL channels (value map is C07)', '> 6 IFLRs'],
    assumptions=[],
)


def obligations(tier):
    q = tier == 'quick'
    return [
        Ob('populate_frame_array_end_to_end', 'ch', '5 IFLR interleavings of 1..2 frame types (1..6 records), optional empty record, VR per record or shared; selector none / Slice(-2..3, {-2,0,2,3,5} (all -2..5 thorough), 1..3) / reverse order Slice(None, None, -1..-3) and Slice(a, b, -1..-3) / Sample(1..3); '
           'channel subsets (the channel after X is of rank 2: dimensions [1, 2]); with/without an earlier population',
           ['RP66V1.core.LogicalFile.LogicalIndex.__enter__', 'LogicalFile.LogicalFile.add_eflr/add_iflr/populate_frame_array/num_frames', 'RP66V1.core.LogPass.log_pass_from_RP66V1/frame_array_from_RP66V1',
            'RP66V1FrameArray.read/read_partial/read_x_axis', 'RP66V1FrameChannel.read/seek', 'common.LogPass.FrameArray.init_arrays/init_arrays_partial', 'FrameChannel.init_array/numpy_indexes',
            'RP66V1.core.XAxis.XAxis.append', 'LogicalRecord.IFLR.IndirectlyFormattedLogicalRecord', 'common.Slice.Slice/Sample'],
           harness='C04_frames', func='populate' if q else 'populate_full', timeout=280 if q else 2400, parts=50 if q else 100, stubs=['SymFile']),
        Ob('read_and_read_partial_symbolic_bytes', 'ch', 'two frames of 5 fully symbolic bytes (USHORT, UNORM, USHORT x 2), full read or every channel mask',
           ['RP66V1.core.LogPass.RP66V1FrameArray.read/read_partial', 'RP66V1FrameChannel.read/seek', 'pRepCode.USHORT/UNORM/code_read', 'common.LogPass.FrameArray.init_arrays/init_arrays_partial'],
           harness='C04_frames', func='read_partial_symbolic', timeout=200 if q else 900, stubs=['list-backed numpy stand-in (engine/fakenp.py)']),
    ]
