"""C20 File type identification recognises every supported format and never crashes (DESIGN.md section 5, C20)."""
from engine.core import Ob
from props import C01

CLAIM = dict(
    engine='re2smt+crosshair',
    technique='z3 regular-expression inclusion for the RP66V1 storage-unit-label patterns of bin_file_type; CrossHair-driven exploration of binary_file_type on reference-encoded '
              'RP66V1 / LIS / LAS / BIT / DAT files with symbolic structure and payload; CrossHair symbolic execution of binary_file_type on arbitrary short buffers and on '
              'known signatures followed by symbolic bytes',
    text='Bounded symbolic checking: (1) every conformant SUL number field is accepted by the type detector patterns; (2) RP66V1 files (5 record interleavings, every sequence-number '
         'spelling of 3 symbolic characters, symbolic maximum length digits, a symbolic payload byte), LIS files (direct/indirect X, TIF on/off, with/without table, split physical '
         'records, with reel/tape headers, with a record of each of the 20 other LIS-79 record types), LAS 1.2/2.0 texts (every comment / blank / indentation / wrap layout), BIT files (1..3 channels, 1..3 frames, symbolic data byte) and DAT '
         'texts are identified as their own type, the file is left at position 0 and unchanged; (3) for every byte string of <= 12 bytes and for 14 signature prefixes followed by 4 '
         'symbolic bytes and 0..40 filler bytes, identification returns a documented code or the empty string and raises nothing.',
    note='Trusted: CrossHair + ch_bits, z3, the reference encoders in spec/ and the builders of the C04/C06/C09/C13/C14 harnesses, SymFile. Recognition obligations run natively once '
         'the structure is chosen by the solver; the arbitrary-buffer obligation is symbolic and is reported inconclusive when its path tree is not exhausted. Outside: SEGY '
         'internals, files larger than the probes read, RP66V2.',
)
META = dict(
    explanation='Recognition: encoder -> binary_file_type == own type. Totality: symbolic prefixes through the whole detector chain.',
    trusted_base=['crosshair-tool + ch_bits', 'z3', 'spec/ reference encoders', 'engine/symio.SymFile'],
    outside=['SEGY', 'RP66V2', 'pr_limit effects on very large LIS files'],
    assumptions=[],
)


def obligations(tier):
    q = tier == 'quick'
    obs = [C01.ob_sul_regex('bin_file_type', 'Comment_1', 4), C01.ob_sul_regex('bin_file_type', 'Comment_4', 5)]
    det = ['util.bin_file_type.binary_file_type', 'FUNCTION_ID_MAP order']
    obs += [
        Ob('recognise_rp66v1', 'ch', '5 record interleavings, VR per record or shared, sequence number spellings from {0,5,blank}{0,7,blank}{1,5,9}, maximum-length digits {0,9}{0,4}, payload byte {0,128,255}',
           det + ['bin_file_type._rp66v1/_rp66v1_bytes'], harness='C20_filetype', func='recognise_rp66v1', timeout=280 if q else 1200, parts=5, stubs=[]),
        Ob('recognise_lis', 'ch', 'LIS files: 3 data records, direct/indirect X, TIF on/off, table on/off, split physical records, with/without reel+tape headers',
           det + ['bin_file_type._lis', 'LIS.core.File.file_read_with_best_physical_record_pad_settings', 'LIS.core.FileIndexer.FileIndex'], harness='C20_filetype', func='recognise_lis',
           timeout=280 if q else 900, parts=16),
        Ob('recognise_lis_with_other_record_types', 'ch', 'LIS files holding one record of each of the 20 other LIS-79 logical record types (operator, comment, blank, picture, image, boot / program, '
           'table dumps, data descriptor, logical EOF/BOT/EOT/EOM) with an opaque body (short with control bytes, or several hundred bytes of plain text so that the file begins with nothing above 0x80): before the log, after it, or alone between file header and trailer; TIF on/off, split physical records',
           det + ['bin_file_type._lis', 'LIS.core.FileIndexer.FileIndex (record dispatch)', 'LIS.core.LogiRec record classes'], harness='C20_filetype', func='recognise_lis_other_records',
           timeout=170 if q else 600),
        Ob('recognise_las', 'ch', 'LAS 1.2/2.0, 2..4 curves, wrap, indentation 0..2, comments, blank lines, 8 cell vocab offsets',
           det + ['bin_file_type._las/_lasv12/_lasv20', 'RE_LAS_VERSION_LINE'], harness='C20_filetype', func='recognise_las', timeout=280 if q else 900, parts=16),
        Ob('recognise_bit_and_dat', 'ch', 'BIT: 1..3 channels, 1..3 frames, symbolic data byte, either direction; DAT: 4 declaration orders, 4 headers, 1..2 rows, blank/tab, both date spellings, plain or with 40 / 150 further channels (2 KB / 7 KB before the first data row) or 400 further rows',
           det + ['bin_file_type._bit/_tif_initial/_tif_third_word', 'bin_file_type._dat', 'DAT.DAT_parser.can_parse_file'], harness='C20_filetype', func='recognise_bit_dat',
           timeout=280 if q else 900, parts=8),
        Ob('totality_signature_prefixes_alphabet', 'ch', '18 signature / TIF / SUL / LIS / DAT / LAS prefixes + 4 bytes (8 x 8 x 4 x 3 choices) from an 8-letter alphabet (NUL, SOH, space, LF, 0, ~, 0x80, 0xff) + 0/1/7/40 filler bytes',
           det + ['every detector in FUNCTION_ID_MAP'], harness='C20_filetype', func='totality_signatures_alphabet', timeout=170 if q else 900, parts=18),
        Ob('totality_short_buffers_alphabet', 'ch', 'every byte string of length <= 5 over the same 8-letter alphabet', det + ['every detector in FUNCTION_ID_MAP'],
           harness='C20_filetype', func='totality_alphabet', timeout=170 if q else 900, parts=8),
        Ob('totality_signature_prefixes', 'ch', '14 signature / TIF / SUL prefixes + 4 fully symbolic bytes + 0/1/7/40 filler bytes',
           det + ['every detector in FUNCTION_ID_MAP'], harness='C20_filetype', func='totality_signatures', timeout=60 if q else 900, parts=14, stubs=['SymFile']),
        Ob('totality_arbitrary_buffer', 'ch', 'every byte string of length <= 12 (fully symbolic)', det + ['every detector in FUNCTION_ID_MAP'], harness='C20_filetype', func='totality',
           timeout=60 if q else 1200, stubs=['SymFile']),
    ]
    return obs
