"""C03 DLIS logical files and their tables decode to what was encoded (DESIGN.md section 5, C03)."""
import z3

from engine import py2smt as P
from engine.core import Ob

CLAIM = dict(
    engine='crosshair+py2smt',
    technique='SMT check of every component-descriptor predicate over all 256 descriptor bytes; CrossHair-driven exploration of EFLR tables encoded by a '
              'reference RP66V1 encoder from symbolic structure (roles, characteristic bits, counts, rep codes, omission) decoded by the real EFLR classes; '
              'logical file splitting over symbolic record-kind sequences',
    text='Bounded symbolic checking: (1) ComponentDescriptor role/characteristic predicates equal RP66V1 figures 3-2..3-5 for every descriptor byte; '
         '(2) for every table with a named/unnamed set, two template attributes (ATTRIB or INVATR, every combination of the C/R/U/V characteristic bits, four rep codes) '
         'and 0..2 objects whose components are omitted / ABSATR / ATTRIB with every characteristic combination, the decoded set, labels, object names and cells '
         '(count, rep code, units, values; absent = None; omitted = template) equal the encoded model; (3) cell values with symbolic bytes; (4) logical files '
         'split exactly at FILE-HEADER records for every sequence of <= 5 record kinds, encrypted records skipped; tables opened by set, replacement set and redundant set components; a table filling a visible record of the maximum length.',
    note='Trusted: CrossHair, z3, spec/rp66_eflr_ref.py (encoder + expected table written from RP66V1 3.2.2), spec/rp66_ref.py. Structure selectors are made concrete '
         'by solver-enumerated branching and the decode then runs natively (mark.untraced); value bytes are symbolic in obligation 3. Outside: OBJREF/DTIME/float cells, '
         'duplicate-object strategies other than the default, more than two template attributes.',
)
META = dict(
    explanation='Reference encoder -> real decoder, compared with the model that was encoded.',
    trusted_base=['crosshair-tool', 'z3', 'spec/rp66_eflr_ref.py'],
    outside=['compound rep codes in cells', 'templates with more than 2 attributes', 'redundant / replacement sets'],
    assumptions=[],
)


def ob_component_descriptor():
    def fn():
        from TotalDepth.RP66V1.core.LogicalRecord.ComponentDescriptor import ComponentDescriptor as CD
        ctx = P.Ctx()
        I = P.Interp(ctx)
        d = z3.BitVec('d', 8)
        # the object is made by the real constructor: descriptors it refuses never exist, and which ones it refuses is part of the claim
        # (RP66V1 3.2.2.1: a set component must have the type characteristic, an object component the name; reserved bits are zero)
        o = ctx.new_obj(CD, {})
        init = I.call(CD.__init__, [o, ctx.from_bv(d)])
        role = z3.Extract(7, 5, d)
        bit = lambda k: z3.Extract(k, k, d) == 1
        attr_group = z3.ULT(role, 3)
        set_group = z3.UGT(role, 4)
        valid = z3.And(z3.Implies(set_group, z3.And(bit(4), (d & 0x07) == 0)), z3.Implies(role == 3, z3.And(bit(4), (d & 0x0f) == 0)))
        exp = dict(is_attribute_group=attr_group, is_set_group=set_group, is_absent_attribute=role == 0, is_attribute=role == 1, is_invariant_attribute=role == 2,
                   is_object=role == 3, is_redundant_set=role == 5, is_replacement_set=role == 6, is_set=role == 7)
        goals, oks = [], []
        for name, e in exp.items():
            r = I.call(getattr(CD, name).fget, [o])
            oks.append(r.ok())
            goals.append(ctx.lift_bool(r.value) == e)
        for name, k in (('has_attribute_L', 4), ('has_attribute_C', 3), ('has_attribute_R', 2), ('has_attribute_U', 1), ('has_attribute_V', 0)):
            r = I.call(getattr(CD, name).fget, [o])
            goals.append(z3.If(attr_group, z3.And(r.ok(), ctx.lift_bool(r.value) == bit(k)), r.raised('ExceptionComponentDescriptorAccessError')))
        for name, k in (('has_set_T', 4), ('has_set_N', 3)):
            r = I.call(getattr(CD, name).fget, [o])
            goals.append(z3.If(set_group, z3.And(r.ok(), ctx.lift_bool(r.value) == bit(k)), r.raised('ExceptionComponentDescriptorAccessError')))
        r = I.call(CD.has_object_N.fget, [o])
        goals.append(z3.If(role == 3, z3.And(r.ok(), ctx.lift_bool(r.value) == bit(4)), r.raised('ExceptionComponentDescriptorAccessError')))
        res = P.decide([], [z3.If(valid, init.ok(), init.raised('ExceptionComponentDescriptorInit'))] + [z3.Implies(valid, g) for g in [z3.And(*oks)] + goals],
                       side=ctx.side + init.side, names=['d'])
        res['functions'] = sorted(ctx.encoded)
        return res

    def replay(m):
        from TotalDepth.RP66V1.core.LogicalRecord import ComponentDescriptor as M
        CD = M.ComponentDescriptor
        d = m.get('d', 0)
        role = d >> 5
        valid = not (role > 4 and (not d & 0x10 or d & 0x07)) and not (role == 3 and (not d & 0x10 or d & 0x0f))
        try:
            c = CD(d)
        except M.ExceptionComponentDescriptorInit as e:
            return valid, 'descriptor %#x refused by the constructor (%s)' % (d, type(e).__name__)
        except Exception as e:
            return True, 'descriptor %#x: constructor raised %s: %s' % (d, type(e).__name__, e)
        if not valid:
            return True, 'descriptor %#x accepted by the constructor (set without type / object without name / reserved bits)' % d
        for name, applies, k in (('has_set_T', role > 4, 4), ('has_set_N', role > 4, 3), ('has_object_N', role == 3, 4)):
            try:
                v = bool(getattr(c, name))
                if not applies or v != bool(d & (1 << k)):
                    return True, 'descriptor %#04x: %s = %r' % (d, name, v)
            except M.ExceptionComponentDescriptorAccessError:
                if applies:
                    return True, 'descriptor %#04x: %s refused (ExceptionComponentDescriptorAccessError)' % (d, name)
            except Exception as e:
                return True, 'descriptor %#04x: %s raised %s' % (d, name, type(e).__name__)
        got = (c.is_attribute_group, c.is_set_group, c.is_absent_attribute, c.is_attribute, c.is_invariant_attribute, c.is_object, c.is_set)
        exp = (role < 3, role > 4, role == 0, role == 1, role == 2, role == 3, role == 7)
        bad = got != exp
        if role < 3:
            bad = bad or [bool(c.has_attribute_L), bool(c.has_attribute_C), bool(c.has_attribute_R), bool(c.has_attribute_U), bool(c.has_attribute_V)] != [bool(d & (1 << k)) for k in (4, 3, 2, 1, 0)]
        return bad, 'descriptor %#04x: predicates %r expected %r' % (d, got, exp)
    return Ob('component_descriptor_predicates', 'smt', 'every descriptor byte 0..255', ['RP66V1.core.LogicalRecord.ComponentDescriptor.ComponentDescriptor.*'], fn=fn, replay=replay)


def _classify(m):
    if m.get('inv0') or m.get('inv1'):
        return 'eflr_invariant_attribute_misparse' if m.get('nobj', 0) > 0 else None
    if m.get('k0') == 1 or m.get('k1') == 1 or 'cnt' in m:
        return 'eflr_object_absatr_not_marked'
    return None


def obligations(tier):
    q = tier == 'quick'
    enc = ['RP66V1.core.LogicalRecord.EFLR.ExplicitlyFormattedLogicalRecord.__init__', 'EFLR.Set', 'EFLR.Template.read', 'EFLR.TemplateAttribute', 'EFLR.Attribute', 'EFLR.Object.__init__',
           'RP66V1.core.pRepCode.IDENT/UVARI/USHORT/UNORM/UNITS/OBNAME/code_read', 'pFile.LogicalData']
    return [
        ob_component_descriptor(),
        Ob('eflr_set_and_template', 'ch', 'named/unnamed set; template attribute 0: ATTRIB/INVATR, all 16 C/R/U/V combinations, 4 rep codes; attribute 1: ATTRIB/INVATR, {none,RV,CU,CRUV}; no objects',
           enc, harness='C03_eflr', func='eflr_template_q', timeout=280, parts=8, classify=_classify),
        Ob('eflr_objects', 'ch', 'template (V | CRUV) x (none | RV); 1..2 objects; each component omitted/ABSATR/ATTRIB with characteristic sets {none,V,RV,CRUV} x {none,V,CRUV}',
           enc, harness='C03_eflr', func='eflr_objects_q', timeout=280, parts=16, classify=_classify),
        Ob('eflr_table', 'ch', 'template attribute 0: 8 of the 16 characteristic combinations x 2 rep codes, attribute 1: {none,RV,CU,CRUV}; 0..2 objects; component 0 omitted/ABSATR/ATTRIB with 8 combinations x 2 rep codes, component 1 with {none,V,RV,CRUV}',
           enc, harness='C03_eflr', func='eflr_table', timeout=1500, parts=108, tiers=('thorough',), classify=_classify),
        Ob('logical_file_splitting', 'ch', 'a first logical file (FILE-HEADER [encrypted record] ORIGIN) followed by every sequence of 0..4 tokens from {new logical file, new logical file '
           'with an encrypted record before its ORIGIN, PARAMETER table, encrypted record, a further ORIGIN record, a WELL-REFERENCE record, an encrypted indirectly formatted record}; one visible record per logical record or all in one',
           ['RP66V1.core.LogicalFile.LogicalIndex.__enter__', 'LogicalFile.LogicalFile.__init__/add_eflr/_add_origin_eflr/is_next', 'pIndex.LogicalRecordIndex', 'EFLR.ExplicitlyFormattedLogicalRecord'],
           harness='C03_eflr', func='logical_file_split', timeout=280 if q else 900, parts=28, stubs=['SymFile']),
        Ob('table_filling_the_largest_visible_record', 'ch', 'a PARAMETER table (two objects, a long ASCII value, a two-element cell) that fills a visible record of exactly 16384 (the RP66V1 maximum) / 16382 / 16380 / 8192 bytes, '
           'as one segment or two, with or without trailing length, followed or not by a second logical file',
           ['RP66V1.core.LogicalFile.LogicalIndex.__enter__', 'pFile.VisibleRecord._read', 'pFile.FileRead.get_file_logical_data', 'EFLR.ExplicitlyFormattedLogicalRecord'],
           harness='C03_eflr', func='big_table', timeout=170 if q else 600, stubs=['SymFile']),
        Ob('tables_opened_by_each_kind_of_set', 'ch', 'a PARAMETER table (and optionally a TOOL table) opened by a set, replacement set or redundant set component (3 x 3 roles), '
           'named or unnamed: set type and name, object names and every cell as encoded',
           ['RP66V1.core.LogicalRecord.ComponentDescriptor.ComponentDescriptor (is_set_group / has_set_N)', 'EFLR.Set.__init__', 'EFLR.ExplicitlyFormattedLogicalRecord', 'LogicalFile.LogicalIndex.__enter__'],
           harness='C03_eflr', func='set_kinds', timeout=170 if q else 600, stubs=['SymFile']),
        Ob('eflr_cell_values_symbolic', 'ch', 'two columns (USHORT, UVARI count 1..2), two objects (values, ABSATR, omitted); three fully symbolic value bytes',
           enc, harness='C03_eflr', func='eflr_values_symbolic', timeout=200 if q else 900, classify=_classify),
    ]
