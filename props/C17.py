"""C17 Unit conversion is consistent: invertible, transitive, dimension-checked (DESIGN.md section 5, C17)."""
import json
import math

import z3

from engine import py2smt as P
from engine.core import Ob

CLAIM = dict(
    engine='py2smt',
    technique='SMT (z3 nonlinear real arithmetic) over the conversion functions translated from source, with symbolic scale/offset/value; '
              'table side conditions evaluated on the current data',
    text='Bounded symbolic checking: common/units._convert, convert, convert_function, convert_array, convert_array_inplace and LIS '
         'Units.UnitConvert.convert / Units.convert are translated from the current source to z3 Real terms; round trip, transitivity, identity '
         'and array == scalar are proved for EVERY scale != 0, offset and value (hence for every pair/triple of table entries), and the refusal '
         'paths (dimension / category mismatch, unknown unit) are shown to raise a units error on every path. Exact over the reals; floating-point '
         'rounding is outside the claim. The RP66V1 entry with its per-producer unit spelling map is decided on 4 producer codes x 12 x 12 unit spellings.',
    note='Trusted: z3 NRA, py2smt. The tables (osdd_units.json, LIS __RAW_UNIT_MAP) enter through checked side conditions: every scale/multiplier is '
         'finite and non-zero, LIS unit names are unique across categories. numpy element-wise broadcasting is trusted. Units.convert is encoded on an '
         'abstract 2-category x 2-unit table (the code is table-generic).',
)
META = dict(
    explanation='Real-arithmetic encodings (float -> Real) of the unit conversion functions; each obligation is a forall over scale/offset/value.',
    trusted_base=['z3 (QF_NRA)', 'engine/py2smt.py'],
    outside=['binary64 rounding of the four arithmetic operations (the property says "to within floating-point rounding")', 'numpy broadcasting'],
    assumptions=['floats modelled as reals'],
)


def _unit(ctx, U, name, dim):
    s, o = z3.Real('scale_' + name), z3.Real('offset_' + name)
    return ctx.new_obj(U.Unit, {'code': name, 'name': name, 'standard_form': name, 'dimension': dim, 'scale': P.SFloat(s), 'offset': P.SFloat(o)}), s, o


def ob_osdd_algebra():
    def fn():
        from TotalDepth.common import units as U
        ctx = P.Ctx(int_mode='int', float_mode='real')
        I = P.Interp(ctx)
        v = z3.Real('v')
        A, sa, oa = _unit(ctx, U, 'A', 'L')
        B, sb, ob = _unit(ctx, U, 'B', 'L')
        C, sc, oc = _unit(ctx, U, 'C', 'L')
        ab = I.call(U._convert, [P.SFloat(v), A, B])
        aba = I.call(U._convert, [ab.value, B, A])
        abc = I.call(U._convert, [ab.value, B, C])
        ac = I.call(U._convert, [P.SFloat(v), A, C])
        aa = I.call(U._convert, [P.SFloat(v), A, A])
        pub = I.call(U.convert, [P.SFloat(v), A, B])
        arr = I.call(U.convert_array, [P.SFloat(v), A, B])
        I.call(U.convert_array_inplace, [P.SFloat(v), A, B])
        inplace = I.last_locals['array']
        f = ctx.lift_float
        goal = [z3.And(ab.ok(), aba.ok(), abc.ok(), ac.ok(), aa.ok(), pub.ok(), arr.ok()),
                f(aba.value) == v, f(abc.value) == f(ac.value), f(aa.value) == v,
                f(pub.value) == f(ab.value), f(arr.value) == f(ab.value), f(inplace) == f(ab.value)]
        r = P.decide([sa != 0, sb != 0, sc != 0], goal, side=ctx.side, timeout_s=120)
        r['functions'] = sorted(ctx.encoded)
        return r

    def replay(m):
        from fractions import Fraction
        from TotalDepth.common import units as U
        import numpy as np
        g = lambda k, d: float(Fraction(m[k])) if k in m else d
        A = U.Unit('A', 'A', 'A', 'L', g('scale_A', 1.0), g('offset_A', 0.0))
        B = U.Unit('B', 'B', 'B', 'L', g('scale_B', 1.0), g('offset_B', 0.0))
        C = U.Unit('C', 'C', 'C', 'L', g('scale_C', 1.0), g('offset_C', 0.0))
        v = g('v', 0.0)
        close = lambda a, b: math.isclose(a, b, rel_tol=1e-9, abs_tol=1e-9 * (1 + abs(v)))
        ab = U.convert(v, A, B)
        arr = np.array([v])
        U.convert_array_inplace(arr, A, B)
        ok = close(U.convert(ab, B, A), v) and close(U.convert(ab, B, C), U.convert(v, A, C)) and close(U.convert(v, A, A), v) \
            and close(U.convert_array(np.array([v]), A, B)[0], ab) and close(arr[0], ab) and close(U.convert_function(A, B)(v), ab)
        return not ok, 'units %r %r %r value %r: there %r back %r' % (A, B, C, v, ab, U.convert(ab, B, A))
    return Ob('osdd_convert_algebra', 'smt', 'every real value, every scale != 0 and offset (three arbitrary units of one dimension)',
              ['common.units._convert', 'units.convert', 'units.convert_array', 'units.convert_array_inplace', 'units.Unit.has_offset', 'units.same_dimension'],
              fn=fn, replay=replay)


def ob_osdd_refusal():
    def fn():
        from TotalDepth.common import units as U
        ctx = P.Ctx(int_mode='int', float_mode='real')
        I = P.Interp(ctx)
        v = z3.Real('v')
        d1, d2 = z3.Ints('dim_A dim_B')
        A, sa, oa = _unit(ctx, U, 'A', P.SInt(d1))
        B, sb, ob = _unit(ctx, U, 'B', P.SInt(d2))
        c = I.call(U.convert, [P.SFloat(v), A, B])
        cf = I.call(U.convert_function, [A, B])
        goal = [z3.Implies(d1 != d2, z3.And(c.raised('ExceptionUnitsDimension'), cf.raised('ExceptionUnitsDimension'))),
                z3.Implies(d1 == d2, z3.And(c.ok(), cf.ok()))]
        r = P.decide([sa != 0, sb != 0], goal, side=ctx.side)
        r['functions'] = sorted(ctx.encoded)
        return r

    def replay(m):
        from TotalDepth.common import units as U
        A = U.Unit('A', 'A', 'A', 'dim%d' % m.get('dim_A', 0), 1.0, 0.0)
        B = U.Unit('B', 'B', 'B', 'dim%d' % m.get('dim_B', 0), 2.0, 0.0)
        res = []
        for f in (lambda: U.convert(1.0, A, B), lambda: U.convert_function(A, B)):
            try:
                f()
                res.append('returned')
            except U.ExceptionUnitsDimension:
                res.append('ExceptionUnitsDimension')
        exp = 'returned' if A.dimension == B.dimension else 'ExceptionUnitsDimension'
        return res != [exp, exp], 'dimensions %r/%r: %r' % (A.dimension, B.dimension, res)
    return Ob('osdd_dimension_refusal', 'smt', 'every pair of dimensions (dimension names modelled as integers), every value',
              ['common.units.convert', 'units.convert_function', 'units.same_dimension'], fn=fn, replay=replay)


def ob_tables():
    """Side conditions of the algebra obligations, evaluated on the current data (not a solver query; listed for completeness)."""
    def fn():
        from TotalDepth.common import units as U
        from TotalDepth.LIS.core import Units as LU
        bad = []
        tab = U.read_osdd_static_data()
        for k, u in tab.items():
            if not (math.isfinite(u.scale) and u.scale != 0 and math.isfinite(u.offset)):
                bad.append('OSDD %r scale %r offset %r' % (k, u.scale, u.offset))
        seen = {}
        n = 0
        for cat in LU.unitCategories():
            for un in LU.units(cat):
                n += 1
                uc = LU.retUnitConvertCategory(cat).unitConvertor(un)
                if not (math.isfinite(uc.mult) and uc.mult != 0):
                    bad.append('LIS %r mult %r' % (un, uc.mult))
                if un in seen:
                    bad.append('LIS unit %r in two categories' % un)
                seen[un] = cat
        if bad:
            return dict(verdict='sat', model=dict(bad=bad[:5]), reach='sat', queries=len(tab) + n)
        return dict(verdict='unsat', reach='sat', queries=len(tab) + n, note='%d OSDD units, %d LIS units satisfy the side conditions' % (len(tab), n))

    def replay(m):
        return True, 'table entries violating scale != 0 / uniqueness: %r' % (m.get('bad'),)
    return Ob('unit_table_side_conditions', 'smt', 'every entry of osdd_units.json and of the LIS unit table (concrete data check)', ['common/data/osdd_units.json', 'LIS.core.Units.__RAW_UNIT_MAP'], fn=fn, replay=replay)


def ob_lis_algebra():
    def fn():
        from TotalDepth.LIS.core import Units as LU
        tot = 0
        funcs = set()
        last = None
        for mask in range(8):    # which of the three units have an offset (offs None or a number): concrete alternatives
            ctx = P.Ctx(int_mode='int', float_mode='real')
            I = P.Interp(ctx)
            v = z3.Real('v')
            us = []
            ms = []
            for i, n in enumerate('ABC'):
                m_, o_ = z3.Real('mult_' + n), z3.Real('offs_' + n)
                ms.append(m_)
                us.append(ctx.new_obj(LU.UnitConvert, {'name': n, 'mult': P.SFloat(m_), 'offs': P.SFloat(o_) if mask & (1 << i) else None, 'desc': '', 'real': None}))
            A, B, C = us
            cv = lambda x, a, b: I.call(LU.UnitConvert.convert, [a, x, b])
            ab = cv(P.SFloat(v), A, B)
            aba = cv(ab.value, B, A)
            abc = cv(ab.value, B, C)
            ac = cv(P.SFloat(v), A, C)
            aa = cv(P.SFloat(v), A, A)
            f = ctx.lift_float
            goal = [z3.And(ab.ok(), aba.ok(), abc.ok(), ac.ok(), aa.ok()), f(aba.value) == v, f(abc.value) == f(ac.value), f(aa.value) == v]
            r = P.decide([m_ != 0 for m_ in ms], goal, side=ctx.side)
            tot += r.get('queries', 0)
            funcs |= ctx.encoded
            if r['verdict'] != 'unsat':
                r['queries'] = tot
                if r['verdict'] == 'sat':
                    r['model']['offset_mask'] = mask
                return r
            last = r
        last['queries'] = tot
        last['functions'] = sorted(funcs)
        return last

    def replay(m):
        from fractions import Fraction
        from TotalDepth.LIS.core import Units as LU
        g = lambda k, d: float(Fraction(m[k])) if k in m else d
        mask = m.get('offset_mask', 0)
        mk = lambda i, n: LU.UnitConvert((n.encode() * 4, g('mult_' + n, 1.0), g('offs_' + n, 0.0), 'd', b'    ') if mask & (1 << i)
                                         else (n.encode() * 4, g('mult_' + n, 1.0), 'd', b'    '))
        A, B, C = mk(0, 'A'), mk(1, 'B'), mk(2, 'C')
        v = g('v', 0.0)
        close = lambda a, b: math.isclose(a, b, rel_tol=1e-9, abs_tol=1e-9 * (1 + abs(v)))
        ab = A.convert(v, B)
        ok = close(B.convert(ab, A), v) and close(B.convert(ab, C), A.convert(v, C)) and close(A.convert(v, A), v)
        return not ok, 'LIS UnitConvert mult/offs %r value %r: %r -> %r' % (m, v, ab, B.convert(ab, A))
    return Ob('lis_unitconvert_algebra', 'smt', 'every real value, every multiplier != 0, offsets present/absent in all 8 combinations',
              ['LIS.core.Units.UnitConvert.convert'], fn=fn, replay=replay)


def ob_lis_refusal():
    """Units.convert on an abstract table: categories 0,1 with units (0,1) and (2,3); unit 9 is unknown.  Every pair of (u_1, u_2) in
    {0,1,2,3,9}^2 is one SMT query over symbolic multipliers/offsets/value."""
    def fn():
        from TotalDepth.LIS.core import Units as LU
        tot = 0
        funcs = set()
        last = None
        for u1, u2, omask in [(a, b, k) for a in (0, 1, 2, 3, 9) for b in (0, 1, 2, 3, 9) for k in range(4)]:
            if True:
                # omask: which of the two units carry an offset (bit 0: the source unit, bit 1: the target unit); units not involved have none
                ctx = P.Ctx(int_mode='int', float_mode='real')
                I = P.Interp(ctx)
                v = z3.Real('v')
                mults = [z3.Real('mult_%d' % i) for i in range(4)]
                offs = [z3.Real('offs_%d' % i) for i in range(4)]
                has = [(i == u1 and bool(omask & 1)) or (i == u2 and bool(omask & 2)) for i in range(4)]
                if u1 == u2 and omask in (1, 2):
                    continue
                objs = [ctx.new_obj(LU.UnitConvert, {'name': i, 'mult': P.SFloat(mults[i]), 'offs': P.SFloat(offs[i]) if has[i] else None, 'desc': '', 'real': None}) for i in range(4)]
                cats = [ctx.new_obj(LU.UnitConvertCategory, {'cat': c, 'desc': '', 'base': 2 * c, '_unitMap': {2 * c: objs[2 * c], 2 * c + 1: objs[2 * c + 1]}}) for c in (0, 1)]
                g = dict(LU.convert.__globals__)
                g['__UNIT_TO_CATEGORY_MAP'] = {0: 0, 1: 0, 2: 1, 3: 1}
                g['__UNIT_MAP'] = {0: cats[0], 1: cats[1]}
                import types
                conv = types.FunctionType(LU.convert.__code__, g, 'convert')
                conv.__verif_ast__ = P._src_ast(LU.convert)
                conv.__module__ = LU.convert.__module__
                conv.__qualname__ = 'convert'
                out = I.call(conv, [P.SFloat(v), u1, u2])
                same = u1 != 9 and u2 != 9 and (u1 // 2 == u2 // 2)
                if same:
                    # through the base unit: subtract the source offset, scale, add the target offset (whichever of the two has one)
                    o1 = offs[u1] if has[u1] else z3.RealVal(0)
                    o2 = offs[u2] if has[u2] else z3.RealVal(0)
                    goal = [out.ok(), (ctx.lift_float(out.value) - o2) * mults[u2] == (v - o1) * mults[u1]]
                else:
                    goal = [out.raised('ExceptionUnitsUnknownUnit', 'ExceptionUnitsMissmatchedCategory', 'ExceptionUnitsNoUnitInCategory', 'ExceptionUnits')]
                r = P.decide([m_ != 0 for m_ in mults], goal, side=ctx.side)
                tot += r.get('queries', 0)
                funcs |= ctx.encoded
                if r['verdict'] != 'unsat':
                    r['queries'] = tot
                    if r['verdict'] == 'sat':
                        r['model'].update(u1=u1, u2=u2, omask=omask)
                    return r
                last = r
        last['queries'] = tot
        last['functions'] = sorted(funcs)
        return last

    def replay(m):
        from fractions import Fraction
        from TotalDepth.LIS.core import Units as LU
        same = m['u1'] != 9 and m['u2'] != 9 and m['u1'] // 2 == m['u2'] // 2
        if same:
            # the model's multipliers, offsets and value on a scratch category object (the real class, the real convert)
            g = lambda k, d: float(Fraction(m[k])) if k in m else d
            omask = m.get('omask', 0)
            def mk(i, with_off):
                t = (bytes([65 + i]) * 4, g('mult_%d' % i, 1.0), g('offs_%d' % i, 0.0), 'd', b'    ') if with_off else (bytes([65 + i]) * 4, g('mult_%d' % i, 1.0), 'd', b'    ')
                return LU.UnitConvert(t)
            a, b = mk(m['u1'], bool(omask & 1)), mk(m['u2'], bool(omask & 2))
            if m['u1'] == m['u2']:
                b = a
            cat = LU.UnitConvertCategory.__new__(LU.UnitConvertCategory)
            cat.cat, cat.desc, cat.base, cat._unitMap = b'CAT ', 'd', a.name, {a.name: a, b.name: b}
            v = g('v', 0.0)
            got = cat.convert(v, a.name, b.name)
            o1 = a.offs if a.offs is not None else 0.0
            o2 = b.offs if b.offs is not None else 0.0
            want = (v - o1) * a.mult / b.mult + o2
            bad = not math.isclose(got, want, rel_tol=1e-9, abs_tol=1e-9 * (1 + abs(v) + abs(o1) + abs(o2)))
            return bad, 'UnitConvertCategory.convert(%r, mult %r offs %r -> mult %r offs %r) = %r, through the base unit %r' % (v, a.mult, a.offs, b.mult, b.offs, got, want)
        names = {0: b'FEET', 1: b'INCH', 2: b'S   ', 3: b'MS  ', 9: b'????'}
        u1, u2 = names[m['u1']], names[m['u2']]
        try:
            got = LU.convert(1.0, u1, u2)
            return True, 'Units.convert(1.0, %r, %r): returned %r' % (u1, u2, got)
        except LU.ExceptionUnits as e:
            return False, 'Units.convert(1.0, %r, %r): %s' % (u1, u2, type(e).__name__)
    return Ob('lis_convert_refusal', 'smt', 'abstract table of 2 categories x 2 units + an unknown unit: all 25 (from, to) pairs, offsets present/absent on the two units, every multiplier != 0, offset and value: the value through the base unit, or the refusal',
              ['LIS.core.Units.convert', 'Units.UnitConvertCategory.convert/unitConvertor', 'Units.UnitConvert.convert'], fn=fn, replay=replay)


def obligations(tier):
    q = tier == 'quick'
    return [ob_osdd_algebra(), ob_osdd_refusal(), ob_tables(), ob_lis_algebra(), ob_lis_refusal(),
            Ob('array_conversion_types_and_shapes', 'ch', 'convert_array / convert_array_inplace on arrays of float64, float32, int64, int32, int16, uint8 (1-D and 2x2), 7 unit pairs of the packaged OSDD table '
               '(with and without offsets, identity), 4 value sets: equal to element-wise scalar conversion, argument left untouched',
               ['common.units.convert_array', 'common.units.convert_array_inplace', 'common.units.convert', 'common.units.read_osdd_static_data'],
               harness='C17_arrays', func='array_conversion', timeout=170 if q else 600, unblock=True, stubs=['reads the packaged osdd_units.json']),
            Ob('rp66_producer_code_unit_conversion', 'ch', 'RP66V1.core.Units.convert / convert_function: 4 producer codes (none, the built-in map of producer 280, a map registered through the extension point, '
               'an unknown producer) x every ordered pair of 12 unit spellings (mapped, unmapped, OSDD codes, another dimension, unknown) x 3 values: the OSDD conversion of the mapped units, or the documented refusal',
               ['RP66V1.core.Units.convert', 'RP66V1.core.Units.convert_function', 'common.units.slb_units', 'common.units.convert'],
               harness='C17_rp66', func='rp66_units_wrapper', timeout=170 if q else 600, unblock=True,
               stubs=['reads the packaged osdd_units.json', 'the online OSDD lookup is made to fail so that the packaged table is used'])]
