"""C09 LAS files parse to their content, independent of layout (DESIGN.md section 5, C09)."""
from engine.core import Ob

CLAIM = dict(
    engine='crosshair',
    technique='CrossHair-driven exploration of LASRead over LAS text rendered by a reference renderer from a content model with symbolic layout '
              '(version, wrap, comments, blank lines, leading / column / delimiter spacing, values per wrapped line, unparseable tokens)',
    text='Bounded symbolic checking: for LAS 1.2 and 2.0, 1..4 curves, 1..3 frames, with and without a parameter section, wrapped or not, and every combination of the layout '
         'options, the parsed version/well/curve/parameter lines (mnemonic, units, typed value, description) and the frame array (channel names, units, values, null for '
         'unparseable tokens, mask) equal the content model - the same model for every layout. Section lines are also checked for every mnemonic/unit of 1..2 characters '
         'over {A,z,0,_} with 10 value spellings (integer, float, yes/no, text with blanks, colon, dot).',
    note='Trusted: CrossHair, spec/las_ref.py (renderer written from the CWLS LAS 2.0 document), numpy storage. Layout selectors are made concrete by solver-enumerated '
         'branching and the parser then runs natively. Outside: LAS 3.0, dates in data rows, descriptions containing a colon, arbitrary characters beyond the stated alphabets.',
)
META = dict(
    explanation='Reference renderer -> real parser, compared with the content model; one model, all layouts.',
    trusted_base=['crosshair-tool', 'spec/las_ref.py', 'numpy'],
    outside=['LAS 3.0', 'DATE/TIME typed data columns', 'free-form text beyond the vocabulary'],
    assumptions=[],
)


def obligations(tier):
    q = tier == 'quick'
    fns = ['LAS.core.LASRead.generate_lines', 'LASRead.line_to_sect_line', 'LASRead.string_to_value', 'LASSection.add_member_line/finalise/create_index',
           'LASSectionArray.add_member_line/_add_member_with_wrap_mode/_add_buffer/_convert_value/finalise', 'LASRead.LASRead._process_file/_process_section_v/_process_section/_process_section_a',
           'common.LogPass.FrameArray/FrameChannel', 'common.AbsentValue.mask_absent_values']
    return [
        Ob('las_layout_independence', 'ch', 'LAS 1.2/2.0 (version written with 1 or 2 decimals), 1..4 curves (incl. numeric curves named TIME / DATE, units with dots), 1..2 (1 or 3 thorough) frames, wrap on/off, '
           'comments (at column 0 or indented by spaces / a tab), blank lines (empty or spaces / tabs; before sections and between data rows), leading spaces (section titles indented too), column separator widths, '
           'values per wrapped line, cell vocabulary incl. unparseable tokens; header values typed (signed integers, floats, yes/no, text)',
           fns, harness='C09_las', func='las_layouts_q' if q else 'las_layouts', timeout=280 if q else 2400, parts=16),
        Ob('lenient_reading_repeated_curves', 'ch', 'lenient reading (raise_on_error=False) of LAS 2.0 files whose curve section repeats mnemonics (5 patterns of 4..7 curves, 0..2 repeated, repeats adjacent or apart), '
           '1..3 frames, wrapped (1..3 values per line) or not: one channel per distinct curve, in order, holding its own column; without repeats lenient = strict',
           ['LASRead.LASSectionArray.__init__/finalise (_duplicate_column_indexes)', 'LASRead.LASRead'], harness='C09_las', func='lenient_repeated_curves', timeout=170 if q else 600),
        Ob('section_line_fields', 'ch', 'mnemonic of 1..2 characters over {A,z,0,_}, unit of 0..2 characters over {A,z,0,.}, 12 value spellings, 0..2 spaces around the delimiters',
           ['LASRead.line_to_sect_line', 'LASRead.string_to_value', 'LASRead.RE_LINE_FIELD_0/RE_LINE_FIELD_1'], harness='C09_las', func='sect_line_chars', timeout=280 if q else 900, parts=36),
    ]
