"""C08 LIS tables and format specifications survive encode then decode (DESIGN.md section 5, C08)."""
import z3

from engine import py2smt as P
from engine.core import Ob

CLAIM = dict(
    engine='py2smt+crosshair',
    technique='SMT check of the representation-code choice of CbEngValWrite over every integer; CrossHair-driven exploration of LrTableWrite -> LrTableRead and '
              'EntryBlockSet.lisBytes + channel blocks -> LrDFSRRead over symbolic table shapes, duplicate row names, cell kinds, units, entry-block subsets and channel definitions',
    text='Bounded symbolic checking: (1) for every Python int the component block writer picks code 66 / 79 / 73 exactly when the value fits and refuses anything beyond 32 bits; '
         '(2) tables of 0..3 rows named from a 3-name vocabulary (so duplicates arise), 0..2 value columns (0: a table of row names only) with cells drawn from 16 kinds (empty/short/4-byte text, integers on '
         'both sides of every code boundary, floats), optional units, whole or split over physical records, decode to the same table name, row order with the first of duplicate '
         'names kept, column set, cell values, codes, sizes and units; (3) entry block sets with any subset of 13 optional blocks (two or three values each) and 1..3 channel blocks '
         'of six kinds decode to the same entry values (defaults for the rest), even total length, and the same channel definitions with derived bursts / sub-channels.',
    note='Trusted: CrossHair, z3, py2smt, spec/lis_lr_ref.py (physical wrapping, channel block bytes - TotalDepth has no channel block writer). Selectors are made concrete by '
         'solver-enumerated branching and encode/decode then run natively. Outside: symbolic mnemonic characters, dipmeter channels, tables with more than 3 rows.',
)
META = dict(
    explanation='Real writer classes -> bytes -> real reader classes, compared with the model written.',
    trusted_base=['crosshair-tool', 'z3', 'engine/py2smt.py', 'spec/lis_lr_ref.py'],
    outside=['dipmeter rep codes 130/234', '> 3 rows / > 3 channels'],
    assumptions=[],
)


def ob_cb_repcode_choice():
    def fn():
        from TotalDepth.LIS.core import LogiRec
        ctx = P.Ctx(extra_calls={LogiRec.CbEngVal.setValue: lambda interp, args, kwargs, pc: None})
        I = P.Interp(ctx)
        v = z3.BitVec('v', 64)
        o = ctx.new_obj(LogiRec.CbEngValWrite, {})
        out = I.call(LogiRec.CbEngValWrite.__init__, [o, 69, P.SInt(v), b'VALU'])
        h = ctx.heap[o.oid]
        rc, size = ctx.lift_int(h['rc']), ctx.lift_int(h['size'])
        in66 = z3.And(v >= 0, v <= 255)
        in79 = z3.And(v >= -32768, v <= 32767)
        in73 = z3.And(v >= -(1 << 31), v <= (1 << 31) - 1)
        goal = [z3.If(in73, out.ok(), out.raised('ExceptionCbWrite')),
                z3.Implies(in66, z3.And(rc == 66, size == 1)),
                z3.Implies(z3.And(z3.Not(in66), in79), z3.And(rc == 79, size == 2)),
                z3.Implies(z3.And(z3.Not(in79), in73), z3.And(rc == 73, size == 4))]
        r = P.decide([], goal, side=out.side, names=['v'])
        r['functions'] = sorted(ctx.encoded)
        return r

    def replay(m):
        from TotalDepth.LIS.core import LogiRec, RepCode
        v = m.get('v', 0)
        v = v - (1 << 64) if v >> 63 else v
        try:
            cb = LogiRec.CbEngValWrite(69, v, b'VALU')
            got = (cb.rc, cb.size)
        except LogiRec.ExceptionCbWrite:
            got = 'ExceptionCbWrite'
        exp = (66, 1) if 0 <= v <= 255 else (79, 2) if -32768 <= v <= 32767 else (73, 4) if -(1 << 31) <= v < (1 << 31) else 'ExceptionCbWrite'
        return got != exp, 'CbEngValWrite(69, %d, ...) -> %r, expected %r' % (v, got, exp)
    return Ob('component_block_repcode_choice', 'smt', 'every 64-bit integer value', ['LIS.core.LogiRec.CbEngValWrite.__init__'], fn=fn, replay=replay,
              stubs=['CbEngVal.setValue (EngVal construction) is a no-op in the encoding'])


def obligations(tier):
    q = tier == 'quick'
    return [
        ob_cb_repcode_choice(),
        Ob('table_write_then_read', 'ch', '0..3 rows (text or numeric row names) over 7 names (duplicates), 0..2 value columns (0: a table of row names only), 16 cell kinds, units on/off, one or several physical records',
           ['LIS.core.LogiRec.LrTableWrite.__init__', 'LrTable.genLisBytes/startNewRow/addDatumBlock/_indexLastRowOrDiscard', 'CbEngValWrite', 'CbEngVal.lisBytes', 'LrTableRead.__init__',
            'CbEngValRead', 'TableRow', 'LIS.core.RepCode.writeBytes/readRepCode', 'LIS.core.EngVal.EngValRc'],
           harness='C08_tables', func='table_roundtrip_q' if q else 'table_roundtrip', timeout=280 if q else 3000, parts=16),
        Ob('dfsr_write_then_read', 'ch', 'entry block subsets (13 optional blocks, 2..3 values each; units, frame size and absent value blocks also written empty), 1..3 channel blocks of 6 kinds, one or several physical records',
           ['LIS.core.LogiRec.EntryBlockSet.setEntryBlock/lisBytes/lisByteList/_setLisSizeEven/lisSize/readFromFile', 'EntryBlock.lisBytes', 'EntryBlockRead', 'DatumSpecBlockRead',
            'DatumSpecBlock._setBurstsSubChannels/samples/bursts/values', 'LrDFSRRead.__init__', 'LrDFSR.frameSize'],
           harness='C08_tables', func='dfsr_roundtrip_q' if q else 'dfsr_roundtrip', timeout=280 if q else 3000, parts=16),
    ]
