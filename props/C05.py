"""C05 LIS physical records: what is written is what is read, at any position (DESIGN.md section 5, C05)."""
from engine.core import Ob

CLAIM = dict(
    engine='crosshair',
    technique='CrossHair symbolic execution of File.FileWrite -> File.FileRead / DeTif.strip_tif over symbolic physical-record capacity, trailer options, '
              'TIF on/off, logical record lengths, payload byte and read/skip/seek operation sequences; layout checked by a reference LIS-79 decoder',
    text='Bounded symbolic checking: for every payload capacity 1..4 per physical record, every combination of record-number / file-number / checksum '
         'trailers, with and without TIF markers, and two logical records of every length 1..6 / 1..4 the bytes produced parse under a reference '
         'LIS-79 physical-record decoder to exactly the records written at the positions write() reported; whole-record reads, seeks to either record in '
         'either order, skipToNextLr and every two-step split into sized reads/skips (sizes 0..6) return exactly the written bytes; strip_tif of the '
         'TIF-marked file equals the unmarked file.',
    note='Trusted: CrossHair, spec/lis_pr_ref.py (written from LIS-79 2.3.1), SymFile/SymWFile, PyStruct shim for struct.Struct objects. Outside: pad-modulo '
         'heuristics (file-type discovery), checksum verification on read (the reader does not verify), reversed TIF markers, records longer than 6 bytes / more than 3 records.',
)
META = dict(
    explanation='Writer and reader are the real classes; the file is a pure-Python in-memory object so that lengths and bytes stay symbolic.',
    trusted_base=['crosshair-tool + ch_bits', 'spec/lis_pr_ref.py', 'engine/symio.py'],
    outside=['physical record padding heuristics', 'reversed (big-endian) TIF markers', 'logical records > 6 bytes'],
    assumptions=['struct.Struct objects replaced by PyStruct delegating to struct.pack/unpack'],
)


def obligations(tier):
    q = tier == 'quick'
    stubs = ['SymFile/SymWFile', 'PyStruct']
    return [
        Ob('write_then_read_and_layout_quick', 'ch', 'capacity 1..3, 8 trailer combinations, TIF on/off, record lengths 1..5 and 1..3',
           ['LIS.core.PhysRec.PhysRecWrite.writeLr', 'PhysRecTail.*', 'PhysRecRead._readHead/_readTail/__readOrSkip/readLrBytes/skipLrBytes/skipToNextLr/seekLr/tellLr',
            'TifMarker.TifMarkerWrite.write/close', 'TifMarkerRead.read/_read/reset', 'File.FileWrite/FileRead', 'RawStream'],
           harness='C05_physrec', func='write_then_read_q', timeout=240, parts=16, stubs=stubs, tiers=()),
        Ob('payload_bytes_symbolic', 'ch', 'two records (4 and 2 bytes) with three fully symbolic payload bytes, TIF on/off',
           ['PhysRecWrite.writeLr', 'PhysRecRead.readLrBytes'], harness='C05_physrec', func='payload_bytes', timeout=120 if q else 600, stubs=stubs),
        Ob('write_then_read_and_layout', 'ch', 'trailer file number 7 / 0 / 65535 when present; capacity 1..4, 8 trailer combinations, TIF on/off, record lengths 1..7 and 1..5',
           ['LIS.core.PhysRec.PhysRecWrite.writeLr', 'PhysRecTail.*', 'PhysRecRead._readHead/_readTail/__readOrSkip/readLrBytes/skipLrBytes/skipToNextLr/seekLr/tellLr',
            'TifMarker.TifMarkerWrite.write/close', 'TifMarkerRead.read/_read/reset', 'File.FileWrite/FileRead', 'RawStream'],
           harness='C05_physrec', func='write_then_read', timeout=600, parts=16, stubs=stubs),
        Ob('strip_tif_equals_unmarked', 'ch', 'capacity 1..4, record-number/checksum trailers, record lengths 1..7 and 1..5',
           ['DeTif.strip_tif', 'DeTif._read_tifs', 'PhysRecWrite.writeLr', 'TifMarkerWrite'], harness='C05_physrec', func='strip_tif_is_plain',
           timeout=240 if q else 900, parts=4, stubs=stubs),
        Ob('maximum_length_physical_records', 'ch', 'physical record length 65535 (the maximum, the writer default), TIF on/off, record number / checksum trailer on/off; first logical record '
           'fills its first physical record exactly or misses / exceeds it by 1..2 bytes; written, laid out per LIS-79, read back whole, after seeks, and in sized pieces',
           ['PhysRecWrite.writeLr', 'PhysRecRead', 'TifMarker.TifMarkerRead.__init__/read', 'TifMarker.TifMarkerWrite', 'File.FileWrite/FileRead'], harness='C05_physrec', func='max_length_records',
           timeout=280 if q else 900, stubs=['SymFile', 'SymWFile']),
        Ob('more_than_65536_physical_records', 'ch', 'a logical record of 65536..65538 bytes written one byte per physical record with a record number trailer, then a short record; TIF on/off: '
           'layout per LIS-79 incl. the 16-bit record number of every physical record, positions, read after seek',
           ['PhysRecWrite.writeLr', 'PhysRecTail.prtRecNum/normalise', 'TifMarker.TifMarkerWrite', 'File.FileWrite/FileRead'], harness='C05_physrec', func='many_physical_records',
           timeout=280 if q else 900, stubs=['SymFile', 'SymWFile']),
        Ob('sized_reads_and_skips_quick', 'ch', '2 records (9 and 4 bytes), capacity 2..3, TIF on/off, seek to record j, read(n)/skip(n) with n 0..5 then 0..4, then either read the rest or seek (from wherever the reads stopped) to the other / the same record: first byte, tellLr, seekCurrentLrStart + whole read',
           ['PhysRecRead.readLrBytes/skipLrBytes/__readOrSkip/__readLdWithinPr/__skipLdWithinPr/seekLr/tellLr/seekCurrentLrStart/_reset'], harness='C05_physrec', func='sized_reads_and_skips_q',
           timeout=240, parts=16, stubs=stubs, tiers=()),
        Ob('sized_reads_and_skips', 'ch', '2 records (9 and 4 bytes), capacity 2..3, TIF on/off, seek to record j, two operations read(n)/skip(n) with n 0..6, then either read the rest or seek (from wherever the reads stopped) to the other / the same record: first byte, tellLr, seekCurrentLrStart + whole read',
           ['PhysRecRead.readLrBytes/skipLrBytes/__readOrSkip/__readLdWithinPr/__skipLdWithinPr/seekLr/tellLr/seekCurrentLrStart/_reset'], harness='C05_physrec', func='sized_reads_and_skips',
           timeout=600, parts=16, stubs=stubs),
    ]
