"""C16 Run-length indexes reproduce the positions they encode (DESIGN.md section 5, C16)."""
import z3

from engine import py2smt as P
from engine.core import Ob, excluded

CLAIM = dict(
    engine='crosshair+py2smt',
    technique='CrossHair symbolic execution of create_rle / RLE.value / values / largest_le / RLEType01 on symbolic integer sequences; '
              'SMT (z3 LIA) inductive step of RLEItem.add from an arbitrary valid run',
    text='Bounded symbolic checking: every integer sequence of length <= 5 over -3..3 (repeats, negative strides, irregular steps) is '
         'round-tripped through the real RLE classes under CrossHair; largest_le on every ascending sequence of length <= 4 and every query; '
         'the LIS frame index on every (position, frames) pattern of <= 4 records. One inductive SMT step (arbitrary run + add(v)) removes the '
         'length bound for RLEItem.add. Float sequences (regular, and off the run by a last bit up to one and a half strides) come back to within two units in the last place.',
    note='Trusted: CrossHair, z3, py2smt. Floats ("within rounding of one stride") are outside: integers only.',
)
META = dict(
    explanation='CrossHair conditions over the real common/Rle.py and LIS/core/Rle.py with scalar symbolic integers; plus an SMT induction step encoded from RLEItem.add source.',
    trusted_base=['crosshair-tool 0.0.110', 'z3', 'engine/py2smt.py'],
    outside=['float sequences (isclose tolerance)', 'sequences longer than 5 for the whole-structure obligations (the add step is unbounded)'],
    assumptions=[],
)


def ob_add_step():
    def fn():
        from TotalDepth.common import Rle
        ctx = P.Ctx(int_mode='int')
        I = P.Interp(ctx)
        d, s, r, v = z3.Ints('datum stride repeat v')
        o = ctx.new_obj(Rle.RLEItem, {'datum': P.SInt(d), 'stride': P.SInt(s), 'repeat': P.SInt(r)})
        out = I.call(Rle.RLEItem.add, [o, P.SInt(v)])
        h = ctx.heap[o.oid]
        d2, s2, r2 = ctx.lift_int(h['datum']), ctx.lift_int(h['stride']), ctx.lift_int(h['repeat'])
        ret = ctx.lift_bool(out.value)
        absorbed = z3.And(r2 == r + 1, d2 == d, z3.Implies(r >= 1, s2 == s), d2 + r2 * s2 == v)
        same = z3.And(r2 == r, d2 == d, s2 == s)
        # completeness: a value that continues the run must be absorbed
        cont = z3.Or(r == 0, v == d + (r + 1) * s)
        goal = [out.ok(), z3.If(ret, absorbed, same), ret == cont]
        res = P.decide([r >= 0], goal, side=out.side, names=['datum', 'stride', 'repeat', 'v'])
        res['functions'] = sorted(ctx.encoded)
        return res

    def replay(m):
        from TotalDepth.common import Rle
        it = Rle.RLEItem(m.get('datum', 0))
        it.stride, it.repeat = m.get('stride', 0), m.get('repeat', 0)
        before = [it.datum + i * it.stride for i in range(it.repeat + 1)] if it.repeat else [it.datum]
        ret = it.add(m.get('v', 0))
        after = [it.datum + i * it.stride for i in range(it.repeat + 1)] if it.repeat else [it.datum]
        ok = (after == before + [m.get('v', 0)]) if ret else (after == before)
        return not ok, 'RLEItem(%r).add(%r) -> %r: %r -> %r' % (m, m.get('v', 0), ret, before, after)
    return Ob('rleitem_add_inductive_step', 'smt', 'arbitrary run (any datum, stride, repeat >= 0) and any integer v: one add() step',
              ['TotalDepth.common.Rle.RLEItem.add'], fn=fn, replay=replay)


def obligations(tier):
    q = tier == 'quick'
    return [
        ob_add_step(),
        Ob('rle_roundtrip', 'ch', 'integer sequences of length 1..5 over -3..3', ['common.Rle.create_rle', 'RLE.add/value/values/num_values/first/last', 'RLEItem.add/value/values/last'],
           harness='C16_rle', func='rle_roundtrip', timeout=150 if q else 900),
        Ob('rle_roundtrip_large_integers', 'ch', 'integer sequences of length 1..4: base 2**60 / -2**62 / 1.7e18 + i * step (1000 / 0 / 10**6) + offsets -3..3',
           ['common.Rle.create_rle', 'RLE.add/value/values/num_values/first/last', 'RLEItem.add/value/values/last'],
           harness='C16_rle', func='rle_roundtrip_large', timeout=150 if q else 900, parts=7),
        Ob('rle_float_sequences', 'ch', 'float sequences of length 2..5: 4 start values (0.1, 1000, 1.7e12, negative) x 4 strides x per-value deviation from the extrapolated value '
           '(none, one unit in the last place, 1e-10 and 1e-7 relative, a quarter stride, one and a half strides): count, first, last, value(i) for positive and negative i and iteration '
           'give each value back to within two units in the last place',
           ['common.Rle.create_rle', 'RLE.add/value/values/num_values/first/last', 'RLEItem.add (float branch)'], harness='C16_rle', func='rle_floats', timeout=170 if q else 600, parts=16),
        Ob('rle_conversion_function_and_later_adds', 'ch', 'create_rle(1..4 values, fn) with fn none / p - 0x50 / 2p / -p, then 0..3 further add() calls (regular, or off the run by 1 / 0x130 from the first, second or third on): '
           'count, iteration, value(i) from both ends, first and last are fn of every value, given at once or added later',
           ['common.Rle.create_rle', 'RLE.__init__ (conversion function)', 'RLE.add/value/values/num_values/first/last'], harness='C16_rle', func='rle_fn_then_add', timeout=170 if q else 600),
        Ob('rle_largest_le', 'ch', 'ascending sequences of length 1..4 (first 0..2, gaps 1..3), query first..12', ['common.Rle.RLE.largest_le', 'RLEItem.largest_le'],
           harness='C16_rle', func='rle_largest_le', timeout=150 if q else 900),
        Ob('rle_largest_le_large_integers', 'ch', 'ascending sequences of length 1..4, first 10**15 / 2**60, gaps 1..3 x (3*10**15+7) / (2**55+1); query = each stored value and its two neighbours',
           ['common.Rle.RLE.largest_le', 'RLEItem.largest_le'], harness='C16_rle', func='rle_largest_le_large', timeout=150 if q else 900),
        Ob('lis_type01_frame_index_while_building', 'ch', '1..4 records, position gaps 1..2, 1..2 frames per record; total frames and the record / offset of EVERY frame queried after each record is added; positions raw or through a conversion function (t - 0x50, 3t + 1)',
           ['LIS.core.Rle.RLEType01.add/tellLrForFrame/totalFrames/xAxisFirst', 'RLEItemType01.add/tellLrForFrame/totalFrames'],
           harness='C16_rle', func='type01_frames_incremental', timeout=150 if q else 900),
        Ob('lis_type01_frame_index', 'ch', '1..4 records, position gaps 1..3, 1..3 frames per record, frame number 0..12',
           ['LIS.core.Rle.RLEType01.add/tellLrForFrame/totalFrames/xAxisFirst/xAxisLast', 'RLEItemType01.add/value/tellLrForFrame/totalFrames'],
           harness='C16_rle', func='type01_frames', timeout=150 if q else 900),
    ]
