"""C06 LIS log pass frame sets are exact; any sub-selection is a sub-matrix (DESIGN.md section 5, C06)."""
from engine.core import Ob

CLAIM = dict(
    engine='crosshair',
    technique='CrossHair symbolic execution of Type01Plan.FrameSetPlan.genEvents against a cursor simulation, of LogPass.setFrameSet with recording '
              'stand-ins for storage and file, and of FileIndexer.FileIndex + LogPass + FrameSet on reference-encoded LIS files',
    text='Bounded symbolic checking: (1) the read/skip/extrapolate plan for one record is exact for every channel-size vector (1..3 channels of 1..3 bytes), '
         'indirect X on/off, every slice within 4 frames and every channel mask; (2) setFrameSet hands every requested (frame, channel) byte of a 3-record '
         'log pass to storage, for every slice start/stop/step, channel subset, 2..3 frames per record, after an earlier different load, touching only records '
         'that hold requested frames, and with the implied X of every loaded frame checked; (3) complete small LIS files built by a reference encoder are '
         'indexed (record kinds, positions, table names, frame counts, first/last X) and loaded through the real FrameSet for every slice and channel subset.',
    note='Trusted: CrossHair, the recording stand-ins StubFrameSet / RecFile (obligation 2), spec/lis_lr_ref.py encoder (obligation 3), SymFile, PyStruct. '
         'Outside: dipmeter sub-channels, samples/bursts > 1, more than 3 data records, rep codes other than 73/68/66/79 in the end-to-end files.',
)
META = dict(
    explanation='Selection arithmetic is executed symbolically; byte->value conversion per rep code is C07. The end-to-end obligation runs the real numpy/Cython '
                'FrameSet on concrete bytes per path (structure chosen by the solver).',
    trusted_base=['crosshair-tool + ch_bits', 'StubFrameSet/RecFile stand-ins', 'spec/lis_lr_ref.py'],
    outside=['dipmeter channels', 'multi-sample / multi-burst channels', '> 3 data records per log pass'],
    assumptions=[],
)


def _classify_x(m):
    import os, sys
    sys.path.insert(0, os.path.join(os.path.dirname(os.path.dirname(os.path.abspath(__file__))), 'harness'))
    import C06_logpass as H
    if not m.get('indirect'):
        return None
    # is the failure explained by the known implied-X defect alone?  Re-run with the exclusion switched on.
    old = os.environ.get('VERIF_EXCLUDE', '')
    os.environ['VERIF_EXCLUDE'] = 'setframeset_implied_x_after_record_boundary'
    try:
        ok = H._set_frameset(m['s0'], m['s1'], m['nfr'], m['start'], m['stop'], m['step'], m['indirect'], m['both'], m['second'])
    except Exception:
        ok = False
    finally:
        os.environ['VERIF_EXCLUDE'] = old
    return 'setframeset_implied_x_after_record_boundary' if ok else None


def _classify_load(m):
    import os, sys
    sys.path.insert(0, os.path.join(os.path.dirname(os.path.dirname(os.path.abspath(__file__))), 'harness'))
    import C06_logpass as H
    if not m.get('indirect'):
        return None
    fpr = [m.get('f0', 2), m['f1'], m.get('f2', 1)]
    old = os.environ.get('VERIF_EXCLUDE', '')
    os.environ['VERIF_EXCLUDE'] = 'setframeset_implied_x_after_record_boundary'
    try:
        ok = H._load(fpr, m['indirect'], m['tif'], m['start'], m['stop'], m['step'], m['m1'], m['m2'], m['second'], m.get('var', 0))
    except Exception:
        ok = False
    finally:
        os.environ['VERIF_EXCLUDE'] = old
    return 'setframeset_implied_x_after_record_boundary' if ok else None


def obligations(tier):
    q = tier == 'quick'
    e2e = ['LIS.core.FileIndexer.FileIndex.__init__/genLogPasses', 'FileIndexer.IndexLogPass.add', 'FileIndexer.IndexTable', 'LIS.core.LogPass.LogPass.addType01Data/setFrameSet',
           'LIS.core.FrameSet.FrameSet (real numpy/Cython storage, concrete per path)', 'LogiRec.LrDFSRRead/EntryBlockSet.readFromFile/DatumSpecBlockRead', 'File.FileRead', 'PhysRec.PhysRecRead']
    return [
        Ob('index_structure_end_to_end', 'ch', 'reference-encoded LIS file: header, optional table, DFSR, 1..3 data records of 1..3 frames, trailer; indirect X on/off, TIF on/off, '
           'records split over physical records or not (split files also null-padded to multiples of 2 / 4 bytes and opened with that pad modulo); up/down log, frame spacing in X units or in FEET (5 FEET = 600 .1IN)',
           e2e, harness='C06_logpass', func='index_structure', timeout=280 if q else 1200, parts=16, stubs=['SymFile', 'PyStruct']),
        Ob('load_slices_end_to_end_quick', 'ch', 'file with 3 data records of 2, 2..3, 1 frames; every slice (step 1..3), every non-empty subset of the two value channels, indirect X on/off, '
           'TIF on/off, with/without an earlier load, up/down log, frame spacing declared in X units or (indirect X) in FEET; values, X and byte ranges read',
           e2e, harness='C06_logpass', func='load_slices_q', timeout=280, parts=32, stubs=['SymFile', 'PyStruct'], classify=_classify_load, tiers=('quick',)),
        Ob('load_slices_end_to_end', 'ch', 'file with 3 data records of 1..2, 2..3, 1..2 frames; every slice (step 1..3), every non-empty subset of the two value channels, indirect X on/off, '
           'TIF on/off, with/without an earlier load, up/down log, frame spacing declared in X units or in FEET',
           e2e, harness='C06_logpass', func='load_slices', timeout=2400, parts=32, stubs=['SymFile', 'PyStruct'], classify=_classify_load, tiers=('thorough',)),
        Ob('two_log_passes_normal_and_alternate_data', 'ch', 'one logical file with a DFSR for normal data (3 channels) and a DFSR for alternate data (2 channels), 0..2 normal records between them, '
           'then every sequence of 4 records of either type, TIF on/off: both log passes indexed (frames, first X, frame -> record map) and loaded (all frames; a stepped slice of one channel)',
           e2e, harness='C06_logpass', func='two_log_passes', timeout=280 if q else 900, stubs=['SymFile', 'PyStruct']),
        Ob('samples_and_bursts_addressing', 'ch', 'a channel of 1..3 samples x 1..3 bursts per frame between two scalar channels, 2 records of 2 frames; full, stepped and single-channel loads: '
           'value(frame, channel, sub-channel, sample, burst) and the per-channel view equal the recorded values',
           e2e + ['FrameSet._retOffsetTree/valueIdxInFrame/value/frame_channel_sub_channel_values'], harness='C06_logpass', func='samples_and_bursts', timeout=280 if q else 900, stubs=['SymFile', 'PyStruct']),
        Ob('load_wide_channel_subsets', 'ch', 'file with 12 channels (direct X) or 11 (implied X), 2 data records of 2 frames; EVERY non-empty channel subset (12-bit mask), step 1..2: '
           'values in ascending channel order and X of every loaded frame',
           e2e, harness='C06_logpass', func='load_wide_subsets', timeout=280 if q else 1200, parts=32, stubs=['SymFile', 'PyStruct']),
        Ob('plan_events_vs_cursor', 'ch', '1..3 channels of 1..3 bytes, indirect X on/off, slice start 0..3 / stop <= 4 / step 1..3, every non-empty channel mask',
           ['LIS.core.Type01Plan.FrameSetPlan.__init__/genEvents/_retFrameEvents/_retMergedPostFramePre/chOffset'], harness='C06_logpass', func='plan_events',
           timeout=280 if q else 1200, parts=24),
        Ob('setframeset_selection_and_implied_x_quick', 'ch', '3 records of 2..3 frames, 2 channels of 1 and 2 bytes, every slice (start < stop <= frames, step 1..3), channel subset, '
           'indirect X on/off, with/without an earlier load',
           ['LIS.core.LogPass.LogPass.setFrameSet/_genFrameSetEvents/_retFrameSetMap/_sliceFromList', 'LIS.core.Rle.RLEType01.tellLrForFrame', 'Type01Plan.FrameSetPlan.genEvents'],
           harness='C06_logpass', func='set_frameset_q', timeout=280, parts=48, classify=_classify_x, tiers=('quick',),
           stubs=['StubFrameSet for FrameSet.FrameSet (lists instead of numpy)', 'RecFile record-level file model']),
        Ob('setframeset_selection_and_implied_x', 'ch', '3 records of 2..3 frames, 2 channels of 1..2 bytes, every slice (start < stop <= frames, step 1..3), channel subset, '
           'indirect X on/off, with/without an earlier load',
           ['LIS.core.LogPass.LogPass.setFrameSet/_genFrameSetEvents/_retFrameSetMap/_sliceFromList', 'LIS.core.Rle.RLEType01.tellLrForFrame', 'Type01Plan.FrameSetPlan.genEvents'],
           harness='C06_logpass', func='set_frameset', timeout=2400, parts=16, classify=_classify_x, tiers=('thorough',),
           stubs=['StubFrameSet for FrameSet.FrameSet (lists instead of numpy)', 'RecFile record-level file model']),
    ]
