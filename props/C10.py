"""C10 LAS written by TotalDepth reads back as the same log (DESIGN.md section 5, C10)."""
from engine.core import Ob

CLAIM = dict(
    engine='crosshair',
    technique='CrossHair-driven exploration of WriteLAS.write_curve_and_array_section_to_las -> LASRead over symbolic channel subsets (incl. unknown names), field width, '
              'decimal places, reduction method, frame count and value selection',
    text='Bounded symbolic checking: for a frame array of five channels (float64, float32, int32, a two-valued float64 channel of dimensions (1, 2), a four-valued int16/uint8 channel whose mean and median are fractional), every requested subset (also with an unknown '
         'name), field widths 4/8/16 (4/5/7/8/12/16 thorough), 1 or 3 decimals (1, 3, 4 thorough), every reduction method and 8 value patterns (zero, negative, wider than the field, rounding '
         'boundary, null) the curve section, the ~A heading and every data row list exactly the first channel plus the requested ones, in order, and reading the text back '
         'gives the same names, units, frame count and every value within half a unit of the last printed decimal.',
    note='Trusted: CrossHair, numpy, LASRead (itself the subject of C09) as the reader; selectors are made concrete by solver-enumerated branching and the writer then runs natively. '
         'Outside: field widths below 4 (the column heading uses width - 2), more than two frames, other dtypes, the LAS header block (write_las_header).',
)
META = dict(
    explanation='Writer -> text -> (direct text inspection + real reader) compared with the source arrays.',
    trusted_base=['crosshair-tool', 'numpy', 'LASRead'],
    outside=['object dtype channels', 'write_las_header metadata'],
    assumptions=[],
)


def obligations(tier):
    q = tier == 'quick'
    return [
        Ob('write_then_read_back', 'ch', 'subsets of 4 optional channels (+ unknown name), widths, decimals, 5 reductions, 1..2 frames, 8 value patterns, multi-valued float and integer channels; through the combined writer or the three incremental writers; frame array fully initialised or prepared for the subset only (init_arrays_partial)',
           ['LAS.core.WriteLAS.write_curve_and_array_section_to_las', 'write_curve_section_to_las', 'write_array_section_header_to_las', 'write_array_section_data_to_las',
            '_add_x_axis_to_channels_to_write', 'write_array_section_to_las', 'array_reduce', 'common.data_table.format_table', 'LAS.core.LASRead.LASRead'],
           harness='C10_writelas', func='write_read_q' if q else 'write_read', timeout=280 if q else 2400, parts=16),
    ]
