"""C07 Representation codes decode per the standards; encoders invert decoders (DESIGN.md section 5, C07)."""
import math
import struct

import z3

from engine import kern
from engine import py2smt as P
from engine.core import Ob, excluded
from spec import repcodes as S
from spec import repcodes_ref as REF

CLAIM = dict(
    engine='py2smt+pyx2py+ll2smt+crosshair',
    technique='SMT (z3 QF_FPBV) equivalence of the decoders/encoders, translated from the current Python/Cython/LLVM-IR source, with the standards\' value formulas over all bit patterns',
    text='Bounded symbolic checking: for every fixed-length LIS-79/RP66V1 code the decoder source is translated to a z3 term and proved equal to the '
         'standard\'s formula on every bit pattern of the code\'s width (2^8..2^64 patterns per query), bytes consumed and *_len helpers included; '
         'code 68 Python = Cython = C++ bit-for-bit on every word / every finite double; to68 inverse and loss bound on every in-range double. '
         'Variable-length codes (IDENT, UNITS, ASCII, OBNAME, OBJREF, DTIME and the *_len helpers) are executed by CrossHair on every byte string of <= 5..9 bytes: value, bytes consumed, short input raises. Not a proof: ldexp/frexp/struct are modelled and variable-length codes are bounded.',
    note='Trusted: z3, the py2smt/pyx2py/ll2smt translators (validated against the real functions and against builds of the current .pyx/.cpp on every run), '
         'models of ldexp/frexp/struct.unpack, spec/repcodes.py. Outside: dipmeter codes, text code 65, unsupported RP66V1 codes, code 50 exponents beyond +-1000.',
)

META = dict(
    explanation='Each obligation encodes the current source of one decoder/encoder (Python AST -> z3 bit-vector + IEEE-754 terms, '
                'branches merged with ite) and asks z3 for a word / double on which it differs from the standard\'s value formula '
                '(spec/repcodes.py); unsat = equal on every bit pattern of the stated width.',
    trusted_base=['z3 4.x FP/BV theories', 'engine/py2smt.py translator (validated on every run against the real functions on the '
                  'standard\'s worked examples and seeded random inputs)', 'spec/repcodes.py (self-tested against the examples quoted in the repo)',
                  'models of math.ldexp / math.frexp / struct.unpack (exact scaling through a 15-bit-exponent format, one rounding)'],
    outside=['dipmeter codes 130/234, code 65 text, FSHORT and other unsupported RP66V1 codes', 'to49/to50/to56/to70/to79 (assert(0) stubs)',
             'code 50 exponents outside [-1000, 1000] (value not representable as a double)', 'glibc ldexp/frexp themselves (modelled)'],
    assumptions=['Python int modelled as 64-bit signed BV with no-overflow side conditions discharged per obligation'],
)


def _lis():
    from TotalDepth.LIS.core import pRepCode
    return pRepCode


def _word_fmt(code):
    R = _lis()
    st = getattr(R, 'STRUCT_RC_%d' % code)
    fmt = st.format
    return fmt[-1], st.size


def _samples_words(code, n, rnd):
    bits = S.LIS_SIZE[code] * 8
    ex = [w & ((1 << bits) - 1) for c, w, v in S.LIS_EXAMPLES if c == code]
    edge = [0, 1, (1 << bits) - 1, 1 << (bits - 1), (1 << (bits - 1)) - 1]
    return ex + edge + [rnd.getrandbits(bits) for _ in range(n)]


def _to_word(code, u):
    """The Python int the repo's struct format yields for the unsigned bit pattern u."""
    c, size = _word_fmt(code)
    bits = size * 8
    if c.islower() and u >> (bits - 1):
        return u - (1 << bits)
    return u


def ob_lis_from(code):
    def fn():
        R = _lis()
        ctx = P.Ctx(narrow=(code != 50))
        I = P.Interp(ctx)
        bits = S.LIS_SIZE[code] * 8
        w = z3.BitVec('w', bits)
        c, size = _word_fmt(code)
        if size != S.LIS_SIZE[code]:
            return dict(verdict='sat', model=dict(w=0, why='struct size %d != standard size %d' % (size, S.LIS_SIZE[code])), reach='sat')
        word = ctx.from_bv(w, signed=c.islower())
        out = I.call(getattr(R, 'from%d' % code), [word])
        spec = S.LIS_SPEC[code](w)
        # spec self-test on the standard's examples
        for cc, ww, vv in S.LIS_EXAMPLES:
            if cc == code:
                sv = z3.simplify(z3.substitute(spec, (w, z3.BitVecVal(ww, bits))))
                got = kern.fp_value(sv) if code in S.LIS_IS_FLOAT else sv.as_signed_long()
                if got != vv or REF.LIS[code](ww) != vv:
                    return kern.harness_error('spec self-test failed for code %d word %#x: %r != %r' % (code, ww, got, vv))
        # translator validation
        rnd = kern.rng(code)
        bad = kern.validate(out, {'w': (w, lambda v: z3.BitVecVal(v, bits))}, [dict(w=x) for x in _samples_words(code, 40, rnd)],
                            lambda w: getattr(R, 'from%d' % code)(_to_word(code, w)))
        if bad:
            return kern.harness_error('translator validation failed: ' + '; '.join(bad[:3]))
        assume = []
        if code == 50:
            e = z3.Extract(31, 16, w)
            assume.append(z3.And(e <= 1000, e >= -1000))      # signed compare on BV16
            if excluded('from50_negative_exponent'):
                assume.append(e >= 0)
        if code in S.LIS_IS_FLOAT:
            goal = [out.ok(), z3.fpEQ(ctx.lift_float(out.value), spec)]
        else:
            goal = [out.ok(), ctx.lift_int(out.value) == spec]
        r = P.decide(assume, goal, side=out.side, names=['w'])
        r['functions'] = sorted(ctx.encoded)
        return r

    def replay(m):
        from TotalDepth.LIS.core import RepCode
        if 'why' in m:
            return True, m['why']
        u = m['w']
        by = u.to_bytes(S.LIS_SIZE[code], 'big')
        exp = REF.LIS[code](u)
        outs = []
        bad = False
        for name, f in (('RepCode.readBytes(%d, %r)' % (code, by), lambda: RepCode.readBytes(code, by)),
                        ('pRepCode.from%d(%d)' % (code, _to_word(code, u)), lambda: getattr(_lis(), 'from%d' % code)(_to_word(code, u)))):
            try:
                got = f()
            except Exception as e:
                got = '%s: %s' % (type(e).__name__, e)
            outs.append('%s = %r' % (name, got))
            if got != exp:
                bad = True
        return bad, '%s; LIS-79 value %r' % ('; '.join(outs), exp)

    def classify(m):
        if code == 50 and (m.get('w', 0) >> 31) & 1:
            return 'from50_negative_exponent'
        return None
    return Ob('lis_from%d_eq_spec' % code, 'smt', 'every %d-bit word' % (S.LIS_SIZE[code] * 8) + (' with exponent field in [-1000,1000]' if code == 50 else ''),
              ['TotalDepth.LIS.core.pRepCode.from%d' % code, 'pRepCode.STRUCT_RC_%d' % code], fn=fn, replay=replay, classify=classify, timeout=120)


def ob_lis_public(code):
    """The public entry RepCode.readBytes(code, 4 bytes): struct format + the override chain (Cython signature conversions)."""
    def fn():
        from engine import pyx2py
        R = _lis()
        ctx = P.Ctx(narrow=(code != 50), extra_calls=pyx2py.extra_calls())
        I = P.Interp(ctx)
        bits = S.LIS_SIZE[code] * 8
        w = z3.BitVec('w', bits)
        c, size = _word_fmt(code)
        word = ctx.from_bv(w, signed=c.islower())
        cy = pyx2py.load_pyx_functions()
        name = 'from%d' % code
        if name not in cy:
            return dict(verdict='unsat', reach='sat', note='no Cython override for %s in the .pyx source' % name, queries=0)
        out = I.call(cy[name], [word])
        spec = S.LIS_SPEC[code](w)
        assume = []
        if code == 50:
            e = z3.Extract(31, 16, w)
            assume.append(z3.And(e <= 1000, e >= -1000))
            if excluded('from50_negative_exponent'):
                assume.append(e >= 0)
        if code in S.LIS_IS_FLOAT:
            goal = [out.ok(), z3.fpEQ(ctx.lift_float(out.value), spec)]
        else:
            goal = [out.ok(), ctx.lift_int(out.value) == spec]
        r = P.decide(assume, goal, side=out.side, names=['w'])
        r['functions'] = sorted(ctx.encoded)
        return r

    def replay(m):
        from engine import pyx2py
        u = m['w']
        by = u.to_bytes(S.LIS_SIZE[code], 'big')
        exp = REF.LIS[code](u)
        mod = pyx2py.build_cython_from_source()
        try:
            got = getattr(mod, 'from%d' % code)(_to_word(code, u))
        except Exception as e:
            got = '%s: %s' % (type(e).__name__, e)
        return got != exp, 'cRepCode(built from current .pyx).from%d(%d) = %r; LIS-79 value %r' % (code, _to_word(code, u), got, exp)

    def classify(m):
        if code == 50 and (m.get('w', 0) >> 31) & 1:
            return 'from50_negative_exponent'
        return None
    return Ob('lis_cython_from%d_eq_spec' % code, 'smt', 'every %d-bit word as unpacked by pRepCode.STRUCT_RC_%d, through the Cython signature' % (S.LIS_SIZE[code] * 8, code),
              ['cRepCode.pyx from%d (C integer semantics, argument conversion)' % code, 'pRepCode.STRUCT_RC_%d' % code], fn=fn, replay=replay, classify=classify, timeout=120)


def ob_lis_sizes():
    def fn():
        R = _lis()
        ctx = P.Ctx()
        I = P.Interp(ctx)
        r = z3.BitVec('r', 64)
        out = I.call(R.lisSize, [P.SInt(r)])
        outw = I.call(R.wordLength, [P.SInt(r)])
        known = dict(S.LIS_SIZE)
        known[65] = 0
        goal = []
        for k, v in known.items():
            goal.append(z3.Implies(r == k, z3.And(out.ok(), ctx.lift_int(out.value) == v, outw.ok(), ctx.lift_int(outw.value) == v)))
        other = z3.And(*[r != k for k in list(known) + [130, 234]])
        goal.append(z3.Implies(other, z3.And(out.raised('ExceptionRepCodeUnknown'), outw.raised('ExceptionRepCodeUnknown'))))
        res = P.decide([], z3.And(*goal), side=out.side + outw.side, names=['r'])
        res['functions'] = sorted(ctx.encoded)
        return res

    def replay(m):
        R = _lis()
        r = m['r']
        r = r - (1 << 64) if r >> 63 else r
        try:
            got = R.lisSize(r)
        except Exception as e:
            got = type(e).__name__
        known = dict(S.LIS_SIZE)
        known[65] = 0
        exp = known.get(r, 'ExceptionRepCodeUnknown')
        return got != exp, 'lisSize(%d) = %r, standard %r' % (r, got, exp)
    return Ob('lis_sizes', 'smt', 'every integer code number (64-bit)', ['TotalDepth.LIS.core.pRepCode.lisSize', 'pRepCode.wordLength'], fn=fn, replay=replay)


# ---- to68

def _enc68(ctx, I):
    R = _lis()
    return R


def ob_to68_roundtrip():
    def fn():
        R = _lis()
        ctx = P.Ctx()
        I = P.Interp(ctx)
        w = z3.BitVec('w', 32)
        v = I.call(R.from68, [ctx.from_bv(w)])
        enc = I.call(R.to68, [v.value])
        back = I.call(R.from68, [enc.value])
        # validation of to68 encoding
        vv = z3.FP('vv', P.F64)
        enc2 = P.Interp(P.Ctx()).call(R.to68, [P.SFloat(vv)])
        rnd = kern.rng(68)
        smp = [153.0, -153.0, 0.0, -0.0, 1e-40, -1e-40, 1e40, -1e40, 2.0 ** 127, -2.0 ** 127, 3.5e-46, 1e-45, 0.1, -0.1, 2.0 ** -129, -2.0 ** -128] + \
              [rnd.uniform(-1e6, 1e6) for _ in range(30)] + [math.ldexp(rnd.uniform(-1, 1), rnd.randint(-160, 140)) for _ in range(60)]
        bad = kern.validate(enc2, {'v': (vv, lambda x: z3.FPVal(x, P.F64))}, [dict(v=x) for x in smp], lambda v: R.to68(v))
        if bad:
            return kern.harness_error('translator validation of to68 failed: ' + '; '.join(bad[:3]))
        assume = []
        if excluded('to68_minimum'):
            assume.append(w != 0x80000000)
        goal = [z3.And(v.ok(), enc.ok(), back.ok()), z3.fpEQ(ctx.lift_float(back.value), ctx.lift_float(v.value))]
        r = P.decide(assume, goal, side=v.side + enc.side + back.side, names=['w'], timeout_s=300)
        r['functions'] = sorted(ctx.encoded)
        return r

    def replay(m):
        from TotalDepth.LIS.core import RepCode, pRepCode, cRepCode
        w = m['w']
        outs = []
        bad = False
        for name, mod in (('RepCode', RepCode), ('pRepCode', pRepCode), ('cRepCode', cRepCode)):
            v = mod.from68(w)
            w2 = mod.to68(v)
            v2 = mod.from68(w2)
            outs.append('%s: from68(%#010x)=%r to68->%#010x from68->%r' % (name, w, v, w2, v2))
            bad = bad or (v2 != v)
        return bad, '; '.join(outs)

    def classify(m):
        return 'to68_minimum' if m.get('w') == 0x80000000 else None
    return Ob('to68_inverts_from68', 'smt', 'every 32-bit word w: from68(to68(from68(w))) == from68(w)',
              ['pRepCode.from68', 'pRepCode.to68'], fn=fn, replay=replay, classify=classify, timeout=300)


def ob_to68_loss():
    def fn():
        R = _lis()
        ctx = P.Ctx()
        I = P.Interp(ctx)
        vb = z3.BitVec('vbits', 64)
        v = z3.fpBVToFP(vb, P.F64)
        enc = I.call(R.to68, [P.SFloat(v)])
        back = I.call(R.from68, [enc.value])
        lo = z3.FPVal(R.RC_68_MIN, P.F64)
        hi = z3.FPVal(R.RC_68_MAX, P.F64)
        assume = [z3.Not(z3.fpIsNaN(v)), z3.Not(z3.fpIsInf(v)), z3.fpLEQ(lo, v), z3.fpLEQ(v, hi),
                  z3.fpGEQ(z3.fpAbs(v), z3.FPVal(2.0 ** -128, P.F64))]
        if excluded('to68_minimum'):
            assume.append(z3.Not(z3.fpEQ(v, lo)))
        err = z3.fpAbs(z3.fpSub(P.RNE, ctx.lift_float(back.value), v))
        goal = [z3.And(enc.ok(), back.ok()), z3.fpLT(err, z3.fpMul(P.RNE, z3.fpAbs(v), z3.FPVal(2.0 ** -22, P.F64)))]
        r = P.decide(assume, goal, side=enc.side + back.side, names=['vbits'], timeout_s=600)
        r['functions'] = sorted(ctx.encoded)
        return r

    def replay(m):
        from TotalDepth.LIS.core import RepCode, pRepCode, cRepCode
        v = struct.unpack('>d', struct.pack('>Q', m['vbits']))[0]
        outs = []
        bad = False
        for name, mod in (('RepCode', RepCode), ('pRepCode', pRepCode), ('cRepCode', cRepCode)):
            w = mod.to68(v)
            v2 = mod.from68(w)
            outs.append('%s: to68(%s)=%#010x -> %s' % (name, v.hex(), w, float(v2).hex()))
            bad = bad or not (abs(v2 - v) < abs(v) * 2.0 ** -22)
        return bad, '; '.join(outs)

    def classify(m):
        v = struct.unpack('>d', struct.pack('>Q', m['vbits']))[0]
        return 'to68_minimum' if v == -2.0 ** 127 else None
    return Ob('to68_loss_below_2^-22', 'smt', 'every double v with RC_68_MIN <= v <= RC_68_MAX and |v| >= 2**-128',
              ['pRepCode.to68', 'pRepCode.from68'], fn=fn, replay=replay, classify=classify, timeout=600)


# ---- RP66V1 fixed-length codes through the real LogicalData class

RP_FIXED = {2: ('FSINGL', 4), 5: ('ISINGL', 4), 6: ('VSINGL', 4), 7: ('FDOUBL', 8), 12: ('SSHORT', 1), 13: ('SNORM', 2), 14: ('SLONG', 4),
            15: ('USHORT', 1), 16: ('UNORM', 2), 17: ('ULONG', 4)}


def _rp_spec(code, bvs):
    word = z3.Concat(*bvs) if len(bvs) > 1 else bvs[0]
    if code == 2:
        return 'f', S.rp_fsingl(word)
    if code == 5:
        return 'f', S.ibm_single(word)
    if code == 6:
        return 'f', S.vax_single(bvs)
    if code == 7:
        return 'f', S.rp_fdoubl(word)
    if code in (12, 13, 14):
        return 'i', z3.SignExt(64 - word.size(), word)
    return 'i', z3.ZeroExt(64 - word.size(), word)


def _rp_ref(code, by):
    if code == 2:
        return struct.unpack('>f', by)[0]
    if code == 5:
        return REF.ibm_single(int.from_bytes(by, 'big'))
    if code == 6:
        return REF.vax_single(by)
    if code == 7:
        return struct.unpack('>d', by)[0]
    return int.from_bytes(by, 'big', signed=code in (12, 13, 14))


def ob_rp_fixed(code):
    name, size = RP_FIXED[code]

    def fn():
        from TotalDepth.RP66V1.core import pRepCode as RP
        from TotalDepth.RP66V1.core.pFile import LogicalData
        res = None
        tot_q = 0
        funcs = set()
        # (a) exact size + one spare byte: value == spec, consumed == size == rep_code_fixed_length; (b) one byte short: raises
        for extra in (1, -1):
            ctx = P.Ctx()
            I = P.Interp(ctx)
            n = size + extra
            bvs = [z3.BitVec('b%d' % i, 8) for i in range(n)]
            ld = ctx.new_obj(LogicalData, {'bytes': [ctx.from_bv(b) for b in bvs], 'index': 0, '_sha1': None})
            out = I.call(getattr(RP, name), [ld])
            if extra == 1:
                kind, spec = _rp_spec(code, bvs[:size])
                idx = ctx.heap[ld.oid]['index']
                fl = I.call(RP.rep_code_fixed_length, [code])
                consumed = ctx.lift_int(idx) == size if P.is_sym(idx) else z3.BoolVal(idx == size)
                lenok = z3.BoolVal(fl.value == size) if not P.is_sym(fl.value) else ctx.lift_int(fl.value) == size
                if kind == 'f':
                    val = ctx.lift_float(out.value)
                    eq = z3.Or(z3.fpEQ(val, spec), z3.And(z3.fpIsNaN(val), z3.fpIsNaN(spec)))
                else:
                    eq = ctx.lift_int(out.value) == spec
                goal = z3.And(out.ok(), eq, consumed, lenok)
                # translator validation
                rnd = kern.rng(code)
                smp = [bytes(rnd.getrandbits(8) for _ in range(n)) for _ in range(30)]
                smp += [e[0].to_bytes(4, 'big') + b'\0' for e in S.RP_EXAMPLES_ISINGL] if code == 5 else []
                smp += [e[0] + b'\0' for e in S.RP_EXAMPLES_VSINGL] if code == 6 else []
                var_of = {'b%d' % i: (bvs[i], lambda v: z3.BitVecVal(v, 8)) for i in range(n)}
                bad = kern.validate(out, var_of, [{('b%d' % i): s[i] for i in range(n)} for s in smp],
                                    lambda **kw: getattr(RP, name)(LogicalData(bytes(kw['b%d' % i] for i in range(n)))))
                if bad:
                    return kern.harness_error('translator validation failed: ' + '; '.join(bad[:3]))
                # spec self-test
                if code in (5, 6):
                    exs = [(e[0].to_bytes(4, 'big'), e[1]) for e in S.RP_EXAMPLES_ISINGL] if code == 5 else S.RP_EXAMPLES_VSINGL
                    for by, val_ in exs:
                        sub = [(bvs[i], z3.BitVecVal(by[i], 8)) for i in range(4)]
                        if kern.fp_value(z3.simplify(z3.substitute(spec, *sub))) != val_ or _rp_ref(code, by) != val_:
                            return kern.harness_error('spec self-test failed for %s %r' % (name, by))
            else:
                goal = out.raised()
            r = P.decide([], goal, side=out.side, names=['b%d' % i for i in range(n)], timeout_s=120)
            tot_q += r.get('queries', 0)
            funcs |= ctx.encoded
            if r['verdict'] != 'unsat':
                r['queries'] = tot_q
                r['functions'] = sorted(funcs)
                if r['verdict'] == 'sat':
                    r['model']['n'] = n
                return r
            res = r
        res['queries'] = tot_q
        res['functions'] = sorted(funcs)
        return res

    def replay(m):
        from TotalDepth.RP66V1.core import RepCode as RPpub
        from TotalDepth.RP66V1.core.File import LogicalData
        n = m['n']
        by = bytes(m.get('b%d' % i, 0) for i in range(n))
        ld = LogicalData(by)
        try:
            got = RPpub.code_read(code, ld)
        except Exception as e:
            got = type(e).__name__
        if n < size:
            return not isinstance(got, str), 'code_read(%d, %r) = %r on short input (must raise)' % (code, by, got)
        exp = _rp_ref(code, by[:size])
        same = (got == exp) or (isinstance(got, float) and got != got and exp != exp)
        return (not same) or ld.index != size or RPpub.rep_code_fixed_length(code) != size, \
            'code_read(%d, %r) = %r consumed %d; standard %r size %d' % (code, by, got, ld.index, exp, size)
    return Ob('rp66_%s_eq_spec' % name, 'smt', 'every %d-byte pattern (+1 spare byte; and every %d-byte short input must raise)' % (size, size - 1),
              ['TotalDepth.RP66V1.core.pRepCode.%s' % name, 'pRepCode.rep_code_fixed_length', 'pFile.LogicalData.chunk/read/remain'], fn=fn, replay=replay, timeout=240)


def ob_rp_uvari():
    def fn():
        from TotalDepth.RP66V1.core import pRepCode as RP
        from TotalDepth.RP66V1.core.pFile import LogicalData
        tot_q = 0
        funcs = set()
        res = None
        for n in (5, 3, 1, 0):
            ctx = P.Ctx()
            I = P.Interp(ctx)
            bvs = [z3.BitVec('b%d' % i, 8) for i in range(n)]
            by = [ctx.from_bv(b) for b in bvs]
            ld = ctx.new_obj(LogicalData, {'bytes': by, 'index': 0, '_sha1': None})
            out = I.call(RP.UVARI, [ld])
            ln = I.call(RP.UVARI_len, [by, 0])
            idx = ctx.lift_int(ctx.heap[ld.oid]['index'])
            if n == 0:
                goal = z3.And(out.raised(), z3.BoolVal(ln.value == 0))
            else:
                top = z3.Extract(7, 6, bvs[0])
                need = z3.If(top == 3, z3.BitVecVal(4, 64), z3.If(top == 2, z3.BitVecVal(2, 64), z3.BitVecVal(1, 64)))
                u = lambda b: z3.ZeroExt(56, b)
                g = lambda i: u(bvs[i]) if i < n else z3.BitVecVal(0, 64)
                v1 = u(bvs[0]) & 0x7F
                v2 = ((u(bvs[0]) & 0x3F) << 8) | g(1)
                v4 = ((u(bvs[0]) & 0x3F) << 24) | (g(1) << 16) | (g(2) << 8) | g(3)
                spec = z3.If(top == 3, v4, z3.If(top == 2, v2, v1))
                fits = need <= n
                lnv = ctx.lift_int(ln.value)
                goal = z3.And(ln.ok(), lnv == need,
                              z3.If(fits, z3.And(out.ok(), ctx.lift_int(out.value) == spec, idx == need), out.raised()))
                if n == 5:
                    rnd = kern.rng(18)
                    smp = [bytes([rnd.choice([0, 0x7f, 0x80, 0xbf, 0xc0, 0xff, rnd.getrandbits(8)])] + [rnd.getrandbits(8) for _ in range(4)]) for _ in range(40)]
                    var_of = {'b%d' % i: (bvs[i], lambda v: z3.BitVecVal(v, 8)) for i in range(n)}
                    bad = kern.validate(out, var_of, [{('b%d' % i): s[i] for i in range(n)} for s in smp],
                                        lambda **kw: RP.UVARI(LogicalData(bytes(kw['b%d' % i] for i in range(n)))))
                    if bad:
                        return kern.harness_error('translator validation failed: ' + '; '.join(bad[:3]))
            r = P.decide([], goal, side=out.side + ln.side, names=['b%d' % i for i in range(n)])
            tot_q += r.get('queries', 0)
            funcs |= ctx.encoded
            if r['verdict'] != 'unsat':
                r['queries'] = tot_q
                if r['verdict'] == 'sat':
                    r['model']['n'] = n
                return r
            res = r
        res['queries'] = tot_q
        res['functions'] = sorted(funcs)
        return res

    def replay(m):
        from TotalDepth.RP66V1.core import RepCode as RP
        from TotalDepth.RP66V1.core.File import LogicalData
        n = m['n']
        by = bytes(m.get('b%d' % i, 0) for i in range(n))
        need = 0 if n == 0 else {3: 4, 2: 2}.get(by[0] >> 6, 1)
        ln = RP.UVARI_len(by, 0)
        ld = LogicalData(by)
        try:
            got = RP.UVARI(ld)
        except Exception as e:
            got = type(e).__name__
        if n == 0 or need > n:
            return not isinstance(got, str) or ln != need, 'UVARI(%r) = %r, UVARI_len = %d (needs %d bytes)' % (by, got, ln, need)
        exp = by[0] & 0x7f if need == 1 else int.from_bytes(by[:need], 'big') & ((1 << (8 * need - 2)) - 1)
        return got != exp or ld.index != need or ln != need, 'UVARI(%r) = %r consumed %d len %d; standard %r / %d' % (by, got, ld.index, ln, exp, need)
    return Ob('rp66_UVARI_eq_spec', 'smt', 'every byte string of length 0, 1, 3, 5', ['RP66V1.core.pRepCode.UVARI', 'pRepCode.UVARI_len', 'pFile.LogicalData.read'],
              fn=fn, replay=replay)


def ob_threeway_from68():
    def fn():
        from engine import pyx2py, ll2smt
        R = _lis()
        w = z3.BitVec('w', 32)
        ctx = P.Ctx(extra_calls=pyx2py.extra_calls())
        I = P.Interp(ctx)
        py = I.call(R.from68, [ctx.from_bv(w)])
        cy = I.call(pyx2py.load_pyx_functions()['from68'], [ctx.from_bv(w)])
        ir = ll2smt.parse_functions(ll2smt.emit_ir())
        cpp, enc = ll2smt.encode(ir, ll2smt.find(ir, '_from68'), [w], ctx)
        # translator validation of the IR and pyx encodings against builds of the current sources
        real_cpp = ll2smt.build_cpp()
        real_cy = pyx2py.build_cython_from_source()
        rnd = kern.rng(683)
        for x in [0x444C8000, 0xBBB38000, 0, 0x80000000, 0xffffffff] + [rnd.getrandbits(32) for _ in range(60)]:
            sub = [(w, z3.BitVecVal(x, 32))]
            a = kern.fp_value(z3.simplify(z3.substitute(cpp, *sub)))
            b = kern.py_value(cy.value, sub)
            if a != real_cpp['from68'](x) or b != real_cy.from68(x):
                return kern.harness_error('translator validation failed at %#x: IR %r vs built %r; pyx %r vs built %r' % (x, a, real_cpp['from68'](x), b, real_cy.from68(x)))
        pv, cv = ctx.lift_float(py.value), ctx.lift_float(cy.value)
        goal = [z3.And(py.ok(), cy.ok()), pv == cv, cv == cpp]     # bit-for-bit (structural FP equality)
        r = P.decide([], goal, side=py.side + cy.side + enc.ctx.side[len(py.side) + len(cy.side):], names=['w'], timeout_s=120)
        r['functions'] = sorted(ctx.encoded) + ['LISRepCode.cpp _from68 (LLVM IR)']
        return r

    def replay(m):
        from engine import pyx2py, ll2smt
        w = m['w']
        a = _lis().from68(w)
        b = pyx2py.build_cython_from_source().from68(w)
        c = ll2smt.build_cpp()['from68'](w)
        same = struct.pack('>d', a) == struct.pack('>d', b) == struct.pack('>d', c)
        return not same, 'from68(%#010x): pRepCode %r, cRepCode.pyx (built) %r, LISRepCode.cpp (built) %r' % (w, a, b, c)
    return Ob('from68_py_eq_pyx_eq_cpp', 'smt', 'every 32-bit word, bit-for-bit', ['pRepCode.from68', 'cRepCode.pyx from68', 'LISRepCode.cpp _from68 (LLVM IR)'],
              fn=fn, replay=replay, timeout=120)


def ob_threeway_to68(narrow=True):
    def fn():
        from engine import pyx2py, ll2smt
        R = _lis()
        vb = z3.BitVec('vbits', 64)
        v = z3.fpBVToFP(vb, P.F64)
        ctx = P.Ctx(extra_calls=pyx2py.extra_calls(), narrow=narrow)
        I = P.Interp(ctx)
        py = I.call(R.to68, [P.SFloat(v)])
        n1 = len(ctx.side)
        cy = I.call(pyx2py.load_pyx_functions()['to68'], [P.SFloat(v)])
        ir = ll2smt.parse_functions(ll2smt.emit_ir())
        cpp, enc = ll2smt.encode(ir, ll2smt.find(ir, '_to68'), [v], ctx)
        real_cpp = ll2smt.build_cpp()
        real_cy = pyx2py.build_cython_from_source()
        rnd = kern.rng(684)
        smp = [153.0, -153.0, 0.0, 2.0 ** 127, -2.0 ** 127, 1e40, -1e40, 3.5e-46, -1e-45, 2.0 ** -129, -2.0 ** -140] + \
              [math.ldexp(rnd.uniform(-1, 1), rnd.randint(-160, 140)) for _ in range(60)]
        for x in smp:
            sub = [(vb, z3.BitVecVal(struct.unpack('>Q', struct.pack('>d', x))[0], 64))]
            a = z3.simplify(z3.substitute(cpp, *sub)).as_long()
            b = kern.py_value(cy.value, sub)
            if a != real_cpp['to68'](x) or b != real_cy.to68(x):
                return kern.harness_error('translator validation failed at %r: IR %#x vs built %#x; pyx %#x vs built %#x' % (x, a, real_cpp['to68'](x), b, real_cy.to68(x)))
        assume = [z3.Not(z3.fpIsNaN(v)), z3.Not(z3.fpIsInf(v))]
        if narrow:
            assume.append(z3.Not(z3.fpIsSubnormal(v)))
        pv, cv = ctx.lift_int(py.value), ctx.lift_int(cy.value)
        goal = [z3.And(py.ok(), cy.ok()), pv == cv, z3.And(z3.Extract(31, 0, cv) == cpp, z3.Extract(63, 32, cv) == 0)]
        r = P.decide(assume, goal, side=ctx.side, names=['vbits'], timeout_s=600)
        r['functions'] = sorted(ctx.encoded) + ['LISRepCode.cpp _to68 (LLVM IR)']
        r['note'] = (r.get('note', '') + ' C++ UB triage: static_cast<uint32_t> of a negative double in _to68 is undefined behaviour; '
                     'modelled as the x86-64 cvttsd2si lowering (reported separately, not a violation)').strip()
        return r

    def replay(m):
        from engine import pyx2py, ll2smt
        v = struct.unpack('>d', struct.pack('>Q', m['vbits']))[0]
        a = _lis().to68(v)
        b = pyx2py.build_cython_from_source().to68(v)
        c = ll2smt.build_cpp()['to68'](v)
        return not (a == b == c), 'to68(%s): pRepCode %#010x, cRepCode.pyx (built) %#010x, LISRepCode.cpp (built) %#010x' % (v.hex(), a, b, c)
    return Ob('to68_py_eq_pyx_eq_cpp' + ('' if narrow else '_subnormals'), 'smt',
              'every finite double' + (' that is zero or normal' if narrow else ' including subnormals (wide-exponent frexp/ldexp model)'),
              ['pRepCode.to68', 'cRepCode.pyx to68', 'LISRepCode.cpp _to68 (LLVM IR)'], fn=fn, replay=replay, timeout=600,
              tiers=('quick', 'thorough') if narrow else ('thorough',))


def ob_cpp_eq_spec(which):
    def fn():
        from engine import ll2smt
        bits = 32 if which == 68 else 16
        w = z3.BitVec('w', bits)
        ir = ll2smt.parse_functions(ll2smt.emit_ir())
        cpp, enc = ll2smt.encode(ir, ll2smt.find(ir, '_from%d' % which), [w])
        spec = S.LIS_SPEC[which](w)
        r = P.decide([], z3.fpEQ(cpp, spec), side=enc.ctx.side, names=['w'], timeout_s=120)
        r['functions'] = ['LISRepCode.cpp _from%d (LLVM IR)' % which]
        return r

    def replay(m):
        from engine import ll2smt
        w = m['w']
        got = ll2smt.build_cpp()['from%d' % which](w)
        exp = REF.LIS[which](w)
        return got != exp, 'LISRepCode.cpp _from%d(%#x) = %r; LIS-79 value %r' % (which, w, got, exp)
    return Ob('cpp_from%d_eq_spec' % which, 'smt', 'every %d-bit word' % (32 if which == 68 else 16), ['LISRepCode.cpp _from%d (LLVM IR)' % which],
              fn=fn, replay=replay, timeout=120)


def obligations(tier):
    obs = [ob_lis_from(c) for c in (49, 50, 56, 66, 68, 70, 73, 77, 79)]
    obs += [ob_lis_public(c) for c in (49, 50, 56, 66, 68, 70, 73, 77, 79)]
    obs += [ob_threeway_from68(), ob_threeway_to68(True), ob_threeway_to68(False), ob_cpp_eq_spec(68), ob_cpp_eq_spec(49)]
    obs += [ob_lis_sizes(), ob_to68_roundtrip(), ob_to68_loss()]
    obs += [ob_rp_fixed(c) for c in sorted(RP_FIXED)]
    obs += [ob_rp_uvari()]
    q = tier == 'quick'
    var = ['RP66V1.core.pRepCode.IDENT/UNITS/ASCII/OBNAME/OBJREF/DTIME/_pascal_string/UVARI/USHORT/UNORM', 'pRepCode.IDENT_len/OBNAME_len/ORIGIN_len', 'pFile.LogicalData.read/chunk/remain']
    obs += [
        Ob('rp66_IDENT_symbolic_bytes', 'ch', 'every byte string of length <= %d' % (8 if q else 10), var, harness='C07_rp66var', func='ident_code', timeout=150 if q else 900, parts=9 if q else 11),
        Ob('rp66_UNITS_bytes', 'ch', 'every length byte 0..255 x 0..3 content bytes from a 5-letter alphabet (allowed, not allowed, NUL, 0xff, space), 0..4 bytes available', var,
           harness='C07_rp66var', func='units_code', timeout=150 if q else 900, parts=5),
        Ob('rp66_ASCII_symbolic_bytes', 'ch', 'every byte string of length <= %d (1-, 2- and 4-byte UVARI length prefixes)' % (8 if q else 10), var, harness='C07_rp66var', func='ascii_code', timeout=150 if q else 900, parts=9 if q else 11),
        Ob('rp66_OBNAME_OBJREF_symbolic_bytes', 'ch', 'every byte string of length <= %d' % (6 if q else 9), var, harness='C07_rp66var', func='obname_objref', timeout=200 if q else 1500, parts=7 if q else 10),
        Ob('lis_text_code_65_read', 'ch', 'LIS code 65 text of declared length 0..8 after 0..2 other bytes, from a file (exactly that many bytes consumed: two sentinels follow) and from bytes; no length -> refused',
           ['LIS.core.RepCode.readRepCode/readBytes (code 65)', 'LIS.core.File.FileRead.readLrBytes'], harness='C07_lis65', func='text_code_65', timeout=150 if q else 600),
        Ob('lis_public_read_entries', 'ch', 'codes 49/50/56/66/68/70/73/77/79: every word whose bytes come from 9 boundary values (00 01 3f 40 7f 80 bf c0 ff; third byte of a four-byte word 00 80 ff) through RepCode.readBytes(code, bytes), '
           'readBytesNN(bytes), readRepCode(code, file) and readNN(file): the LIS-79 value of the word, exactly lisSize(code) bytes consumed, the same by every entry',
           ['LIS.core.RepCode.readBytes/readRepCode/readNN/readBytesNN/lisSize (dispatch maps, struct formats)', 'cRepCode.pyx fromNN (rebuilt from source)', 'LIS.core.File.FileRead.unpack'],
           harness='C07_lisglue', func='lis_read_glue', timeout=150 if q else 600, parts=9,
           stubs=['the Cython functions are rebuilt from the current cRepCode.pyx and replace those of the git-ignored compiled extension (which may predate the source)']),
        Ob('rp66_length_helpers_at_index', 'ch', 'every byte string of length 2..7, start index 1..3: OBNAME_len / IDENT_len / ORIGIN_len / UVARI_len at index i = at index 0 of the tail', var,
           harness='C07_rp66var', func='len_helpers_at_index', timeout=150 if q else 900, parts=18),
        Ob('rp66_DTIME_symbolic_bytes', 'ch', 'every byte string of length <= 9', var, harness='C07_rp66var', func='dtime', timeout=150 if q else 900, parts=10),
    ]
    return obs
