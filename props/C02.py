"""C02 DLIS index gives random access identical to the sequential read (DESIGN.md section 5, C02)."""
from engine.core import Ob

CLAIM = dict(
    engine='crosshair',
    technique='CrossHair symbolic execution of pIndex.LogicalRecordIndex / FileRead.iter_logical_record_positions / get_file_logical_data over '
              'reference-encoded RP66V1 files with symbolic layout, symbolic record index, prior fetch (history) and symbolic offset/length',
    text='Bounded symbolic checking: for every 2-segment layout (1 or 2 logical records, pad counts, checksum / trailing length / encryption flags, '
         '1..2 visible records) the index has one entry per record with the true kind, type, positions and data length; fetching record i after an '
         'arbitrary earlier fetch j returns the sequential payload; fetching (offset, length) for every offset/length 0..24 returns exactly that slice; '
         'the file object records every read and all of them lie inside the visible records that hold the record.',
    note='Trusted: CrossHair + ch_bits, spec/rp66_ref.py, SymFile (also the byte-range recorder). Outside: pickled indexes, > 2 segments / records in the '
         'quick tier (3 in thorough), histories longer than one prior fetch (each fetch re-seeks from the index entry: one arbitrary prior fetch is the inductive step).',
)
META = dict(
    explanation='Same structured symbolic files as C01; the fetch history is one arbitrary prior fetch followed by the fetch under test.',
    trusted_base=['crosshair-tool + ch_bits', 'spec/rp66_ref.py', 'engine/symio.SymFile'],
    outside=['pickle round trip of the index', 'cFile (placeholder module without code)'],
    assumptions=['conformant files'],
)


def _classify(m):
    import sys, os
    sys.path.insert(0, os.path.join(os.path.dirname(os.path.dirname(os.path.abspath(__file__))), 'harness'))
    import C01_pfile as H
    recs = H.build(2, m['split'], [(m['pad0'], False, False, False, True), (m['pad1'], True, False, False, m['vr1'])], [7, 9])
    return 'get_file_logical_data_range_spans_segments' if H._crosses_segment_boundary(recs, m['i'], m['off'], m['ln']) else None


def obligations(tier):
    q = tier == 'quick'
    return [
        Ob('index_entries', 'ch', '2 segments as 1..2 records, pad 0..2, checksum/encrypted on the first, trailing length on the second, 1..2 VRs; entries + whole fetch of record 0 and three short (offset, length) slices, by entry number and by entry position',
           ['pIndex.LogicalRecordIndex._enter/get_file_logical_data/visible_record_positions', 'pFile.FileRead.iter_logical_record_positions/iter_visible_records/iter_LRSHs_for_visible_record/get_file_logical_data'],
           harness='C01_pfile', func='index_two_segments', timeout=170 if q else 900, parts=8, stubs=['SymFile']),
        Ob('fetch_after_arbitrary_fetch', 'ch', '2 segments as 1..2 records, pad 0..1, 1..2 VRs; fetch record i (by entry number and by entry position, whole and three short slices) after no fetch / a fetch of any record j',
           ['pIndex.LogicalRecordIndex.get_file_logical_data', 'pFile.FileRead.get_file_logical_data'],
           harness='C01_pfile', func='fetch_after_fetch', timeout=170 if q else 900, parts=8, stubs=['SymFile']),
        Ob('fetch_offset_length_quick', 'ch', '2 segments (10..12 payload bytes each) as 1..2 records, pad 0..1, 1..2 VRs; every offset 0..13 and length -1..13',
           ['pFile.FileRead.get_file_logical_data', 'pIndex.LogicalRecordIndex.get_file_logical_data'],
           harness='C01_pfile', func='fetch_slice_two_segments_q', timeout=260, parts=16, stubs=['SymFile'], classify=_classify, tiers=('quick',)),
        Ob('fetch_offset_length', 'ch', '2 segments as 1..2 records, pad 0..1, 1..2 VRs; every offset 0..24 and length -1..24',
           ['pFile.FileRead.get_file_logical_data', 'pIndex.LogicalRecordIndex.get_file_logical_data'],
           harness='C01_pfile', func='fetch_slice_two_segments', timeout=1200, parts=16, stubs=['SymFile'], classify=_classify, tiers=('thorough',)),
        Ob('fetch_offset_length_three_segments', 'ch', 'one record of 3 segments (pad 0..1 / 0..2, checksum on the second, trailing length on the third, 1..3 visible records); offset 0..34, length -1..12',
           ['pFile.FileRead.get_file_logical_data'], harness='C01_pfile', func='fetch_slice_three_segments', timeout=260 if q else 900, parts=8, stubs=['SymFile']),
    ]
