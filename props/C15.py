"""C15 Frame slice and sample selectors select what they say (DESIGN.md section 5, C15)."""
from engine.core import Ob

CLAIM = dict(
    engine='crosshair',
    technique='CrossHair symbolic execution of Slice / Sample / create_slice_or_sample against the language-reference slicing rule and the sample spread predicate',
    text='Bounded symbolic checking: for every start/stop/step (None or -7..7, steps 1..7 and -6..-1) and every length n <= 6 the Slice wrappers '
         'first/count/gen_indices/indices agree with each other and with the language-reference selection; for every sample size <= 8 (12 thorough) '
         'and n <= 12 (16) the Sample indices are min(N,n), start at 0, strictly increase, stay below n and have gaps differing by at most 1; the '
         'one selector object serves overlapping walks and describing calls without changing; the command-line parser is executed on every string of <= 4 characters over the alphabet "0123456789,- Ne".',
    note='Trusted: CrossHair/z3; PySlice stand-in for the C builtin slice (validated exhaustively against the builtin for n <= 7 on every run). '
         'Outside: lengths beyond the bound; option strings longer than 4 characters or with other characters.',
)
META = dict(
    explanation='CrossHair conditions in harness/C15_slice.py over the real common/Slice.py; "Confirmed over all paths" = every input within the pre: bounds.',
    trusted_base=['crosshair-tool 0.0.110', 'z3', 'PySlice stand-in (validated against builtin slice.indices)'],
    outside=['n > 6 (Slice) / n > 12 (Sample) in the quick tier', 'option strings > 4 chars (quick) / > 5 (thorough)'],
    assumptions=['builtin slice replaced by a pure-Python transcription of PySlice_AdjustIndices so that bounds stay symbolic'],
)


def ob_standin():
    """Stub validation (concrete, exhaustive on a small box): PySlice.indices == slice.indices; python_slice_indices == real slicing."""
    def fn():
        import sys, os
        sys.path.insert(0, os.path.join(os.path.dirname(os.path.dirname(os.path.abspath(__file__))), 'harness'))
        import C15_slice as H
        vals = [None] + list(range(-9, 10))
        n_checked = 0
        for n in range(0, 8):
            seq = list(range(n))
            for a in vals:
                for b in vals:
                    for c in [None] + [x for x in range(-8, 9) if x != 0]:
                        n_checked += 1
                        if H.PySlice(a, b, c).indices(n) != slice(a, b, c).indices(n) or H.python_slice_indices(a, b, c, n) != seq[a:b:c]:
                            return dict(verdict='error', note='PySlice stand-in / oracle disagree with the builtin at %r' % ((a, b, c, n),))
        return dict(verdict='unsat', reach='sat', queries=n_checked, note='stand-in and oracle equal the builtin on %d concrete cases (stub validation, not a property obligation)' % n_checked)
    return Ob('slice_standin_validation', 'smt', 'concrete: n <= 7, start/stop in -9..9|None, step in -8..8|None', ['harness stand-in PySlice', 'oracle python_slice_indices'], fn=fn)


def ob_sample_smt(nmax):
    import z3
    from engine import py2smt as P

    def fn():
        from TotalDepth.common import Slice as S
        ctx = P.Ctx(width=16, unwind=nmax + 1)
        I = P.Interp(ctx)
        size, n = z3.BitVec('size', 16), z3.BitVec('n', 16)
        # the object is made by the real constructor (whatever state it sets up is part of the encoding)
        o = ctx.new_obj(S.Sample, {})
        init = I.call(S.Sample.__init__, [o, P.SInt(size)])
        out = I.call(S.Sample.gen_indices, [o, P.SInt(n)])
        cnt = I.call(S.Sample.count, [o, P.SInt(n)])
        if isinstance(out.value, list):
            items = [(z3.BoolVal(True), v) for v in out.value]
        else:
            items = out.value.items
        cs = [c for c, _ in items]
        vs = [ctx.lift_int(v) for _, v in items]
        K = len(items)
        one, zero = z3.BitVecVal(1, 16), z3.BitVecVal(0, 16)
        total = zero
        for c in cs:
            total = total + z3.If(c, one, zero)
        want = z3.If(size < n, size, n)
        first = [z3.And(cs[k], *[z3.Not(cs[j]) for j in range(k)]) for k in range(K)]
        contiguous = z3.And(*[z3.Implies(cs[k], z3.Or(first[k], cs[k - 1])) for k in range(1, K)]) if K > 1 else z3.BoolVal(True)
        # once the sequence has stopped it never resumes: c_k and not c_{k+1} -> no later item
        stops = z3.And(*[z3.Implies(z3.And(cs[k], z3.Not(cs[k + 1])), z3.And(*[z3.Not(cs[j]) for j in range(k + 1, K)])) for k in range(K - 1)]) if K > 1 else z3.BoolVal(True)
        in_range = z3.And(*[z3.Implies(cs[k], z3.And(vs[k] >= 0, vs[k] < n)) for k in range(K)])
        starts0 = z3.And(*[z3.Implies(first[k], vs[k] == 0) for k in range(K)])
        incr = z3.And(*[z3.Implies(z3.And(cs[k], cs[k - 1]), vs[k] > vs[k - 1]) for k in range(1, K)]) if K > 1 else z3.BoolVal(True)
        g1, g2 = z3.BitVec('g1', 16), z3.BitVec('g2', 16)
        isgap = lambda g: z3.Or(*[z3.And(cs[k], cs[k - 1], g == vs[k] - vs[k - 1]) for k in range(1, K)]) if K > 1 else z3.BoolVal(False)
        uneven = z3.And(isgap(g1), isgap(g2), g1 - g2 >= 2)
        goal = [init.ok(), out.ok(), contiguous, stops, total == want, ctx.lift_int(cnt.value) == want, in_range, starts0, incr, z3.Not(uneven)]
        r = P.decide([size >= 1, n >= 0, n <= nmax, size <= nmax + 4], goal, side=init.side + out.side + cnt.side, names=['size', 'n'], timeout_s=600)
        r['functions'] = sorted(ctx.encoded)
        return r

    def replay(m):
        from TotalDepth.common import Slice as S
        size, n = m['size'], m['n']
        s = S.Sample(size)
        got = s.indices(n)
        want = min(size, n)
        gaps = [b - a for a, b in zip(got, got[1:])]
        ok = len(got) == want == s.count(n) and (not got or got[0] == 0) and all(g > 0 for g in gaps) and (not got or got[-1] < n) \
            and (not gaps or max(gaps) - min(gaps) <= 1)
        return not ok, 'Sample(%d).indices(%d) = %r count %r' % (size, n, got, s.count(n))
    return Ob('sample_spread_smt_n%d' % nmax, 'smt', 'every sample size 1..%d and every length 0..%d (loop unwound %d times, unwinding assertion checked)' % (nmax + 4, nmax, nmax + 1),
              ['common.Slice.Sample.__init__', 'Sample.gen_indices', 'Sample.count'], fn=fn, replay=replay, timeout=600,
              tiers=('quick', 'thorough') if nmax <= 16 else ('thorough',))


def ob_slice_smt(nmax, lim):
    import z3
    from engine import py2smt as P

    def fn():
        import os, sys
        sys.path.insert(0, os.path.join(os.path.dirname(os.path.dirname(os.path.abspath(__file__))), 'harness'))
        import C15_slice as H
        from TotalDepth.common import Slice as S
        tot_q = 0
        funcs = set()
        last = None
        for mask in range(8):           # which of start/stop/step are None: concrete alternatives, the integers are symbolic
            ctx = P.Ctx(width=16, unwind=nmax + 1)
            I = P.Interp(ctx)
            a, b, c, n = [z3.BitVec(x, 16) for x in ('start', 'stop', 'step', 'n')]
            args = [None if mask & 1 else P.SInt(a), None if mask & 2 else P.SInt(b), None if mask & 4 else P.SInt(c)]
            psl = ctx.new_obj(H.PySlice, {'start': args[0], 'stop': args[1], 'step': args[2]})
            o = ctx.new_obj(S.Slice, {'_slice': psl})
            gen = I.call(S.Slice.gen_indices, [o, P.SInt(n)])
            ind = I.call(S.Slice.indices, [o, P.SInt(n)])
            cnt = I.call(S.Slice.count, [o, P.SInt(n)])
            fst = I.call(S.Slice.first, [o, P.SInt(n)])
            items = gen.value.items if isinstance(gen.value, P.CondList) else [(z3.BoolVal(True), v) for v in gen.value]
            items2 = ind.value.items if isinstance(ind.value, P.CondList) else [(z3.BoolVal(True), v) for v in ind.value]
            cs = [x for x, _ in items]
            vs = [ctx.lift_int(v) for _, v in items]
            K = len(items)
            # language-reference membership: i selected <=> lo <= i < hi and (i - lo) % step == 0   (step > 0), mirrored for step < 0
            st = z3.BitVecVal(1, 16) if mask & 4 else c
            zero = z3.BitVecVal(0, 16)
            def norm(v, isnone, dpos, dneg, lo_pos, hi_pos, lo_neg, hi_neg):
                if isnone:
                    return z3.If(st > 0, dpos, dneg)
                adj = z3.If(v < 0, v + n, v)
                pos = z3.If(adj < lo_pos, lo_pos, z3.If(adj > hi_pos, hi_pos, adj))
                neg = z3.If(adj < lo_neg, lo_neg, z3.If(adj > hi_neg, hi_neg, adj))
                return z3.If(st > 0, pos, neg)
            lo = norm(a, mask & 1, zero, n - 1, zero, n, z3.BitVecVal(-1, 16), n - 1)
            hi = norm(b, mask & 2, n, z3.BitVecVal(-1, 16), zero, n, z3.BitVecVal(-1, 16), n - 1)
            i = z3.BitVec('i', 16)
            member = z3.Or(z3.And(st > 0, lo <= i, i < hi, z3.URem(i - lo, st) == 0),
                           z3.And(st < 0, hi < i, i <= lo, z3.URem(lo - i, -st) == 0))
            generated = z3.Or(*[z3.And(cs[k], vs[k] == i) for k in range(K)]) if K else z3.BoolVal(False)
            total = zero
            for x in cs:
                total = total + z3.If(x, z3.BitVecVal(1, 16), zero)
            first_k = [z3.And(cs[k], *[z3.Not(cs[j]) for j in range(k)]) for k in range(K)]
            ordered = z3.And(*[z3.Implies(z3.And(cs[k], cs[k - 1]), z3.If(st > 0, vs[k] > vs[k - 1], vs[k] < vs[k - 1])) for k in range(1, K)]) if K > 1 else z3.BoolVal(True)
            contiguous = z3.And(*[z3.Implies(cs[k], cs[k - 1]) for k in range(1, K)]) if K > 1 else z3.BoolVal(True)
            same_list = z3.And(len(items2) == K, *[z3.And(items2[k][0] == cs[k], ctx.lift_int(items2[k][1]) == vs[k]) for k in range(min(K, len(items2)))])
            goal = [z3.And(gen.ok(), ind.ok(), cnt.ok(), fst.ok()), z3.And(0 <= i, i < n, member) == generated, contiguous, ordered, same_list,
                    ctx.lift_int(cnt.value) == total, z3.And(*[z3.Implies(first_k[k], ctx.lift_int(fst.value) == vs[k]) for k in range(K)])]
            assume = [n >= 0, n <= nmax, a >= -lim, a <= lim, b >= -lim, b <= lim, c >= -lim, c <= lim, c != 0]
            r = P.decide(assume, goal, side=ctx.side, names=['start', 'stop', 'step', 'n', 'i'], timeout_s=300)
            tot_q += r.get('queries', 0)
            funcs |= ctx.encoded
            if r['verdict'] != 'unsat':
                r['queries'] = tot_q
                if r['verdict'] == 'sat':
                    r['model']['none_mask'] = mask
                return r
            last = r
        last['queries'] = tot_q
        last['functions'] = sorted(funcs)
        return last

    def replay(m):
        from TotalDepth.common import Slice as S
        sg = lambda v: v - 65536 if v >= 32768 else v
        mask = m['none_mask']
        a = None if mask & 1 else sg(m.get('start', 0))
        b = None if mask & 2 else sg(m.get('stop', 0))
        c = None if mask & 4 else sg(m.get('step', 0))
        n = sg(m.get('n', 0))
        s = S.Slice(a, b, c)
        exp = list(range(n))[a:b:c]
        got = s.indices(n)
        ok = got == exp and list(s.gen_indices(n)) == exp and s.count(n) == len(exp) and (not exp or s.first(n) == exp[0])
        return not ok, 'Slice(%r,%r,%r) on n=%d: indices %r count %r first %r; Python slicing %r' % (a, b, c, n, got, s.count(n), s.first(n) if exp else None, exp)
    return Ob('slice_semantics_smt_n%d' % nmax, 'smt',
              'every start/stop/step in -%d..%d or None (step != 0) and every length 0..%d; generator unwound %d times with unwinding assertion' % (lim, lim, nmax, nmax + 1),
              ['common.Slice.Slice.first/count/gen_indices/indices', 'harness PySlice (stand-in for builtin slice, validated)'], fn=fn, replay=replay, timeout=300 * 8,
              stubs=['PySlice for builtin slice'], tiers=('quick', 'thorough') if nmax <= 12 else ('thorough',))


def obligations(tier):
    q = tier == 'quick'
    return [
        ob_standin(), ob_sample_smt(16), ob_sample_smt(40), ob_slice_smt(12, 20), ob_slice_smt(24, 40),
        Ob('slice_positive_step', 'ch', 'n 0..6, start/stop None or -7..7, step None or 1..7', ['common.Slice.Slice.first/count/gen_indices/indices'],
           harness='C15_slice', func='slice_sel', timeout=170 if q else 1200, stubs=['PySlice for builtin slice']),
        Ob('slice_negative_step', 'ch', 'n 0..5, start/stop None or -6..6, step -6..-1', ['common.Slice.Slice.first/count/gen_indices/indices'],
           harness='C15_slice', func='slice_sel_neg', timeout=170 if q else 1200, stubs=['PySlice for builtin slice']),
        Ob('slice_reuse_across_lengths', 'ch', 'one Slice object (start/stop None or -5..5, step None or -3..3) applied to n1 then to n2 != n1, both 0..5',
           ['common.Slice.Slice.first/count/gen_indices/indices'], harness='C15_slice', func='slice_reuse', timeout=170 if q else 1200, stubs=['PySlice for builtin slice'], parts=6),
        Ob('sample_reuse_across_lengths', 'ch', 'one Sample object (1..5) applied to n1 then to n2 != n1, both 0..8',
           ['common.Slice.Sample.first/count/gen_indices/indices'], harness='C15_slice', func='sample_reuse', timeout=170 if q else 1200),
        Ob('sample_overlapping_walks', 'ch', 'one Sample object (1..7) walked by two generators at once: 0..4 indices taken over n1, then the whole list / count over n2, then the first walk finished; '
           'and two generators in lock step, after the selector has been described (long_str / str / first / last / step) for n2; n1, n2 0..12: each walk equals that of a fresh selector, the selector stays equal to a fresh one',
           ['common.Slice.Sample.gen_indices/indices/count/long_str/first/last/step/__eq__/__str__'], harness='C15_slice', func='sample_interleaved', timeout=170 if q else 600, parts=7),
        Ob('sample_spread_wide', 'ch', 'every sample size 1..48 on every n 0..64 (real Sample object, run natively per case)', ['common.Slice.Sample.first/count/gen_indices/indices'],
           harness='C15_slice', func='sample_sel_wide', timeout=170 if q else 600, parts=8),
        Ob('sample_spread_small', 'ch', 'sample size 1..4, n 0..6 (real Sample object incl. first())', ['common.Slice.Sample.first/count/gen_indices/indices'],
           harness='C15_slice', func='sample_sel_small', timeout=170, tiers=('quick',)),
        Ob('sample_spread', 'ch', 'sample size 1..8, n 0..12', ['common.Slice.Sample.first/count/gen_indices/indices'],
           harness='C15_slice', func='sample_sel', timeout=1500, tiers=('thorough',)),
        Ob('parse_option_tokens', 'ch', 'option strings of 1..4 comma separated parts, each one of 12 tokens (empty, None, 0, 3, -2, " 4 ", N, one, x, 1.5, No, +7)',
           ['common.Slice.create_slice_or_sample', 'Slice.__init__', 'Sample.__init__'], harness='C15_slice', func='parse_tokens', timeout=170 if q else 600, parts=12),
        Ob('parse_option_string_3', 'ch', 'strings of <= 3 characters over "019,- N"', ['common.Slice.create_slice_or_sample', 'Slice.__init__', 'Sample.__init__'],
           harness='C15_slice', func='parse_sel3', timeout=170 if q else 900),
        Ob('parse_option_string_4', 'ch', 'strings of <= 4 characters over "0123456789,- Ne"', ['common.Slice.create_slice_or_sample', 'Slice.__init__', 'Sample.__init__'],
           harness='C15_slice', func='parse_sel', timeout=1500, tiers=('thorough',)),
    ]
