"""C11 Conversion to LAS keeps exactly the selected frames, channels and values (DESIGN.md section 5, C11)."""
import z3

from engine import py2smt as P
from engine.core import Ob, excluded

CLAIM = dict(
    engine='crosshair+py2smt',
    technique='CrossHair-driven exploration of single_rp66v1_file_to_las / single_lis_file_to_las / single_bit_path_to_las_path on reference-encoded input files '
              '(scratch files) with symbolic frame selector and channel subset, output parsed with LASRead; SMT check of Slice.last / Sample.last against the '
              'true last selected index',
    text='Bounded symbolic checking: for RP66V1 (5 frame interleavings, 1..2 frame types), LIS (direct / indirect X, TIF on/off, 5..6 frames in 3 records) and BIT '
         '(1..2 channels, 2..5 frames in two blocks, either direction) inputs, every selector none / Slice(start -2..2, stop in a 4-value set, step 1..3) / Sample(1..3) '
         'and channel subset: one LAS file per log pass, parsed back, must hold exactly the selected frames in order, the X axis plus the requested channels, every value '
         'within the print precision, and STRT/STOP/STEP equal to first X, last X and mean spacing of the rows written. Slice.last()/Sample.last() - used by all three '
         'converters - are compared with the last selected index for every start/stop/step and length by an SMT query.',
    note='Trusted: CrossHair, reference encoders of spec/ (RP66V1, LIS) and the C13 BIT builder, LASRead as the reader of the output (C09), numpy; scratch files under /tmp '
         '(removed per case). Selectors are made concrete by solver-enumerated branching and the converter then runs natively. Outside: the LAS header text, directories / '
         'multiprocessing (C12), input files larger than 6 frames.',
)
META = dict(
    explanation='Real conversion entry points on real (scratch) files; the output is parsed with the real LAS reader and compared with the model that was encoded.',
    trusted_base=['crosshair-tool', 'spec/ reference encoders', 'LASRead', 'numpy'],
    outside=['LAS header block', 'batch conversion'],
    assumptions=['scratch directory under /tmp is writable'],
)


def ob_last():
    def fn():
        import os, sys
        sys.path.insert(0, os.path.join(os.path.dirname(os.path.dirname(os.path.abspath(__file__))), 'harness'))
        import C15_slice as H
        from TotalDepth.common import Slice as S
        ctx = P.Ctx(width=16, unwind=13)
        I = P.Interp(ctx)
        a, b, c, n = [z3.BitVec(x, 16) for x in ('start', 'stop', 'step', 'n')]
        psl = ctx.new_obj(H.PySlice, {'start': P.SInt(a), 'stop': P.SInt(b), 'step': P.SInt(c)})
        o = ctx.new_obj(S.Slice, {'_slice': psl})
        last = I.call(S.Slice.last, [o, P.SInt(n)])
        gen = I.call(S.Slice.gen_indices, [o, P.SInt(n)])
        items = gen.value.items if isinstance(gen.value, P.CondList) else [(z3.BoolVal(True), v) for v in gen.value]
        lv = ctx.lift_int(last.value)
        # the last generated index: item k with c_k and not c_{k+1}
        conds = []
        for k, (ck, vk) in enumerate(items):
            nxt = items[k + 1][0] if k + 1 < len(items) else z3.BoolVal(False)
            conds.append(z3.Implies(z3.And(ck, z3.Not(nxt)), lv == ctx.lift_int(vk)))
        assume = [n >= 1, n <= 12, a >= 0, a <= 12, b >= 0, b <= 12, c >= 1, c <= 6]
        if excluded('slice_last_not_last_selected'):
            assume.append(c == 1)
        r = P.decide(assume, [z3.And(last.ok(), gen.ok()), z3.And(*conds)], side=ctx.side, names=['start', 'stop', 'step', 'n'], timeout_s=120)
        r['functions'] = sorted(ctx.encoded)
        return r

    def replay(m):
        from TotalDepth.common import Slice as S
        a, b, c, n = m.get('start', 0), m.get('stop', 0), m.get('step', 1), m.get('n', 1)
        s = S.Slice(a, b, c)
        idx = s.indices(n)
        if not idx:
            return False, 'empty selection'
        return s.last(n) != idx[-1], 'Slice(%d,%d,%d).last(%d) = %d but the last selected index is %d' % (a, b, c, n, s.last(n), idx[-1])

    def classify(m):
        return 'slice_last_not_last_selected' if m.get('step', 1) > 1 else None
    return Ob('slice_last_is_last_selected_index', 'smt', 'every start, stop 0..12, step 1..6, length 1..12 (non-empty selections)',
              ['common.Slice.Slice.last', 'Slice.gen_indices', 'harness PySlice (stand-in for builtin slice)'], fn=fn, replay=replay, classify=classify, stubs=['PySlice for builtin slice'])


def _classify_conv(kind_of):
    def classify(m):
        import os, sys
        sys.path.insert(0, os.path.join(os.path.dirname(os.path.dirname(os.path.abspath(__file__))), 'harness'))
        import C11_tolas as H
        keys = {'rp66': ['rp66v1_tolas_stop_from_slice_last'],
                'lis': ['lis_bit_tolas_slice_drops_last_frames', 'lis_tolas_well_section_ignores_slice', 'lis_tolas_indirect_x_units', 'lis_tolas_implied_x_after_record_boundary'],
                'bit': ['lis_bit_tolas_slice_drops_last_frames', 'bit_tolas_step_mnemonic']}[kind_of]
        fn = {'rp66': lambda: H._rp66(m['order'], m['kind'], m['a'], m['b'], m['c'], m['m1'], m['m2'], m.get('again', False)),
              'lis': lambda: H._lis(m['f1'], m['indirect'], m['tif'], m['kind'], m['a'], m['b'], m['c']),
              'bit': lambda: H._bit(m['nch'], m['f0'], m['f1'], m['inc'], m['kind'], m['a'], m['b'], m['c'], m['m1'])}[kind_of]
        old = os.environ.get('VERIF_EXCLUDE', '')
        try:
            # the smallest set of listed findings that explains the failure
            for k in keys:
                os.environ['VERIF_EXCLUDE'] = k
                try:
                    if fn():
                        return k
                except Exception:
                    pass
            os.environ['VERIF_EXCLUDE'] = ','.join(keys)
            try:
                if fn():
                    return keys[0]
            except Exception:
                pass
        finally:
            os.environ['VERIF_EXCLUDE'] = old
        return None
    return classify


def obligations(tier):
    q = tier == 'quick'
    return [
        ob_last(),
        Ob('rp66v1_to_las', 'ch', '5 IFLR interleavings (1..2 frame types, 1..6 records); selector none / Slice(-2..2, {-1,2,3,5}, 1..3) / reverse order Slice(None, None, -1..-3) / Sample(1..3); subsets of the two value channels; one conversion, or the whole index converted first and then the selection',
           ['RP66V1.ToLAS.single_rp66v1_file_to_las', 'write_logical_index_to_las', '_write_array_section_to_las', '_add_start_stop_step_to_dictionary', 'write_well_information_to_las',
            'LAS.core.WriteLAS.write_curve_and_array_section_to_las', 'util.bin_file_type.binary_file_type_from_path', 'common.Slice.Slice.first/last/count'],
           harness='C11_tolas', func='rp66v1_to_las', timeout=280 if q else 1200, parts=20, unblock=True, classify=_classify_conv('rp66')),
        Ob('lis_to_las', 'ch', 'LIS file with 3 data records (2, 2..3, 1 frames), optionally preceded by a format specification without data, direct/indirect X, TIF on/off; selector none / Slice(-2..2, {-1,2,4,6}, 1..3) / Sample(1..3)',
           ['LIS.ToLAS.single_lis_file_to_las', 'write_las_file', 'write_well_information_section', 'write_array_section', 'LIS.core.LogPass.LogPass.setFrameSet', 'common.Slice.Slice.first/last/step'],
           harness='C11_tolas', func='lis_to_las', timeout=280 if q else 1200, parts=12, unblock=True, classify=_classify_conv('lis')),
        Ob('bit_to_las', 'ch', 'BIT file with 1..2 channels, two blocks of 1..3 and 1..2 frames, either direction; selector none / Slice(-2..2, {-1,2,3,5}, 1..3) / Sample(1..3); channel subset',
           ['BIT.ToLAS.single_bit_path_to_las_path', 'bit_frame_array_to_las_file', 'BIT.ReadBIT.create_bit_frame_array_from_file', 'LAS.core.WriteLAS.write_curve_and_array_section_to_las'],
           harness='C11_tolas', func='bit_to_las', timeout=280 if q else 1200, parts=12, unblock=True, classify=_classify_conv('bit')),
    ]
