"""C18 Generated XML, XHTML and SVG are well-formed and carry the data unchanged (DESIGN.md section 5, C18)."""
import html

import z3

from engine import py2smt as P
from engine.core import Ob, excluded

CLAIM = dict(
    engine='py2smt+crosshair',
    technique='SMT (z3 LIA) over XmlStream._encode translated from source with the character as a symbolic code point (all 0..0x10FFFF); '
              'CrossHair symbolic execution of element nesting / attribute / text operation sequences and of the RLE index entries, parsed back with a real XML parser',
    text='Bounded symbolic checking of the writer every generated document funnels through: for EVERY code point the encoder output is the character itself, '
         'a predefined entity or a numeric reference that denotes the same character, and is a legal XML 1.0 construct whenever the character is an XML Char; '
         'every sequence of <= 5 start/characters/end/exit operations (symbolic choice of names, attribute sets and texts from a vocabulary that contains markup '
         'characters) yields a document that expat accepts and that carries exactly the model tree; RLE index elements (decimal, hex and float X values, incl. values a last bit or 1e-10 off the run) expand to the original values.',
    note='Trusted: z3, CrossHair, py2smt with its model of str iteration / ord / dict lookup / str.encode(ascii, xmlcharrefreplace) / f-string numeric reference; '
         'expat (oracle parser on concrete output). Outside: whole documents produced from log files by LisToHtml, SVGWriter/Plot (file I/O, numpy), and the numeric content of the RP66V1 HTML summary: '
         'the shared writer, the RLE index writer, the structure of the RP66V1 XML index (entries per table / frame type, run-length entries) and the LAS HTML summary of a bounded family of LAS files are decided.',
)
META = dict(
    explanation='_encode is encoded per character (strings are handled character-wise by the loop in _encode, which is part of the encoded AST); '
                'operation sequences are explored by CrossHair and the concrete output of each path is parsed by xml.etree (expat).',
    trusted_base=['z3', 'crosshair-tool', 'engine/py2smt.py string-operation models', 'expat'],
    outside=['complete HTML/SVG documents generated from files', 'characters() content longer than the vocabulary entries'],
    assumptions=[],
)

XML_CHAR = lambda cp: z3.Or(cp == 9, cp == 10, cp == 13, z3.And(cp >= 0x20, cp <= 0xD7FF), z3.And(cp >= 0xE000, cp <= 0xFFFD), z3.And(cp >= 0x10000, cp <= 0x10FFFF))


def _is_xml_char(cp):
    return cp in (9, 10, 13) or 0x20 <= cp <= 0xD7FF or 0xE000 <= cp <= 0xFFFD or 0x10000 <= cp <= 0x10FFFF


def ob_encode():
    def fn():
        from TotalDepth.util import XmlWrite
        ctx = P.Ctx(int_mode='int')
        I = P.Interp(ctx)
        cp = z3.Int('cp')
        emap = {ord(k): (P.TOK_ENTITY, ord(html.unescape(v))) for k, v in XmlWrite.XmlStream.ENTITY_MAP.items()}
        for k, v in XmlWrite.XmlStream.ENTITY_MAP.items():
            if v not in ('&lt;', '&gt;', '&amp;', '&apos;', '&quot;'):
                return dict(verdict='sat', reach='sat', model=dict(cp=ord(k), why='ENTITY_MAP value %r is not a predefined XML entity' % v))
        o = ctx.new_obj(XmlWrite.XmlStream, {'ENTITY_MAP': emap, '_enc': 'utf-8'})
        out = I.call(XmlWrite.XmlStream._encode, [o, [P.SChar(cp)]])
        toks = out.value
        if not isinstance(toks, list) or len(toks) != 1:
            return dict(verdict='error', note='_encode of one character did not produce one token: %r' % (toks,))
        kind, val = toks[0]
        kind, val = ctx.lift_int(kind), ctx.lift_int(val)
        markup = z3.Or(cp == 60, cp == 38, cp == 62, cp == 34, cp == 39)
        legal = XML_CHAR(cp)
        # faithful: the token denotes cp; well-formed: a literal must be a non-markup XML Char, a numeric reference must name an XML Char
        faithful = val == cp
        wellformed = z3.And(z3.Implies(kind == P.TOK_LITERAL, z3.And(legal, z3.Not(markup))), z3.Implies(kind == P.TOK_NUMREF, XML_CHAR(val)),
                            z3.Or(kind == P.TOK_LITERAL, kind == P.TOK_NUMREF, kind == P.TOK_ENTITY))
        assume = [cp >= 0, cp <= 0x10FFFF]
        if excluded('xml_c0_controls'):
            assume.append(z3.Not(z3.And(cp < 0x20, cp != 9, cp != 10, cp != 13)))
        if excluded('xml_noncharacter_refs'):
            assume.append(z3.Not(z3.Or(z3.And(cp >= 0xD800, cp <= 0xDFFF), cp == 0xFFFE, cp == 0xFFFF)))
        goal = [out.ok(), z3.Implies(legal, faithful), wellformed]
        r = P.decide(assume, goal, side=out.side, names=['cp'])
        r['functions'] = sorted(ctx.encoded)
        return r

    def replay(m):
        import io
        import xml.etree.ElementTree as ET
        from TotalDepth.util import XmlWrite
        if 'why' in m:
            return True, m['why']
        cp = m.get('cp', 0)
        c = chr(cp)
        f = io.StringIO()
        with XmlWrite.XmlStream(f) as xs:
            with XmlWrite.Element(xs, 'R', {'a': 'x' + c + 'y'}):
                xs.characters('p' + c + 'q')
        doc = f.getvalue()
        try:
            root = ET.fromstring(doc.encode('utf-8', 'surrogatepass') if False else doc.split('?>', 1)[1])
        except Exception as e:
            return True, 'document with U+%04X is not well-formed: %s: %r' % (cp, e, doc[-60:])
        ok = True
        if _is_xml_char(cp):
            exp_a, exp_t = 'x' + c + 'y', 'p' + c + 'q'
            # XML line-end / attribute-value normalisation is the parser's, not the writer's
            norm = lambda s: s.replace('\r', '\n')
            ok = norm(root.text) == norm(exp_t) and root.get('a').replace('\t', ' ').replace('\n', ' ').replace('\r', ' ') == exp_a.replace('\t', ' ').replace('\n', ' ').replace('\r', ' ')
        return not ok, 'U+%04X: parsed text %r attr %r' % (cp, root.text, root.get('a'))

    def classify(m):
        cp = m.get('cp', -1)
        if 0 <= cp < 0x20 and cp not in (9, 10, 13):
            return 'xml_c0_controls'
        if 0xD800 <= cp <= 0xDFFF or cp in (0xFFFE, 0xFFFF):
            return 'xml_noncharacter_refs'
        return None
    return Ob('encode_every_code_point', 'smt', 'every code point 0..0x10FFFF (one character; strings are encoded character-wise by the same loop)',
              ['util.XmlWrite.XmlStream._encode', 'XmlStream.ENTITY_MAP'], fn=fn, replay=replay, classify=classify)


def _classify_float_rle(m):
    # a counterexample belongs to the known finding iff it passes the oracle that allows one unit in the last place
    import os
    import sys
    sys.path.insert(0, os.path.join(os.path.dirname(os.path.dirname(os.path.abspath(__file__))), 'harness'))
    import C18_xml as H
    old = os.environ.get('VERIF_EXCLUDE', '')
    os.environ['VERIF_EXCLUDE'] = 'rle_float_run_within_one_ulp'
    try:
        ok = H._rle_float_entries(m['n'], m['b'], m['st'], m['j2'], m['j3'], m['j4'])
    except Exception:
        ok = False
    finally:
        os.environ['VERIF_EXCLUDE'] = old
    return 'rle_float_run_within_one_ulp' if ok else None


def obligations(tier):
    q = tier == 'quick'
    return [
        ob_encode(),
        Ob('element_operation_structure', 'ch', 'every sequence of 1..4 operations over start / characters / end / leave-the-with-block',
           ['util.XmlWrite.XmlStream.startElement/characters/endElement/_closeElemIfOpen/_indent/__enter__/__exit__', 'XmlWrite.Element'],
           harness='C18_xml', func='op_structure', timeout=170 if q else 600),
        Ob('element_operation_structure_5_6', 'ch', 'every sequence of 5..6 operations over start / characters / end / leave-the-with-block',
           ['util.XmlWrite.XmlStream.startElement/characters/endElement/_closeElemIfOpen/_indent/__enter__/__exit__', 'XmlWrite.Element'],
           harness='C18_xml', func='op_structure5', timeout=3000, tiers=('thorough',)),
        Ob('element_content', 'ch', 'an element with one of 3 names x 3 attribute sets and one of 4 texts (markup characters, non-ASCII, astral) inside a parent',
           ['util.XmlWrite.XmlStream.startElement/characters/_encode'], harness='C18_xml', func='op_content1', timeout=170 if q else 600),
        Ob('element_content_nested', 'ch', 'two nested elements, each with one of 3 names x 3 attribute sets and one of 4 texts',
           ['util.XmlWrite.XmlStream.startElement/characters/_encode'], harness='C18_xml', func='op_content', timeout=2400, tiers=('thorough',)),
        Ob('xhtml_stream_sequences', 'ch', 'XhtmlStream with <= 3 operations incl. charactersWithBr on 8 texts with LF, CR LF, trailing CR, NEL, U+2028, U+2029',
           ['util.XmlWrite.XhtmlStream.__enter__/charactersWithBr', 'XmlWrite.Element'], harness='C18_xml', func='xhtml_sequences', timeout=120 if q else 600),
        Ob('rle_index_entries_expand_small', 'ch', 'integer sequences of length 1..3 over -1..2 (decimal) and ascending non-negative positions (hex)',
           ['RP66V1.IndexXML.xml_rle_write', 'common.Rle.create_rle', 'util.XmlWrite.Element'], harness='C18_xml', func='rle_entries_small', timeout=170 if q else 600),
        Ob('rle_index_entries_expand', 'ch', 'integer sequences of length 1..4 over -3..3 (decimal) and ascending non-negative positions (hex)',
           ['RP66V1.IndexXML.xml_rle_write', 'common.Rle.create_rle', 'util.XmlWrite.Element'], harness='C18_xml', func='rle_entries', timeout=2400, tiers=('thorough',), parts=7),
        Ob('mixed_content_text_exact', 'ch', 'every sequence of 1..7 operations over start / characters / end (nesting up to 7 deep, text before and after children): once an element has character data, '
           'every text and tail inside it is recovered exactly (no indentation added); only element-only content may be indented',
           ['util.XmlWrite.XmlStream.startElement/characters/endElement/_indent/_canIndent/_flipIndent/_closeElemIfOpen'], harness='C18_xml', func='mixed_content',
           timeout=170 if q else 600, parts=9),
        Ob('document_file_with_declared_encoding', 'ch', 'XmlStream opened on a path with declared encoding utf-8 / latin-1 / ascii / cp1252; attribute and text from 8 strings '
           '(ASCII, Latin-1 letters, superscript, Greek, CJK, markup characters); parsed back from the file by expat',
           ['util.XmlWrite.XmlStream.__init__/__enter__/_encode/characters/startElement', 'XmlWrite.Element'], harness='C18_xml', func='xml_file_declared_encoding',
           timeout=170 if q else 600, unblock=True, stubs=['scratch file (the stream opens the path itself)']),
        Ob('xml_index_one_entry_per_table_and_frame_type', 'ch', 'reference-encoded RP66V1 files: 1..2 logical files, 1..2 frame types with 1..6 frame records in 5 interleavings (numbered 1..N or with a gap), float X '
           '(regular / irregular / 0.1 n), optional producer-private table (record type 128), one visible record per logical record or shared; index written with private on/off',
           ['RP66V1.IndexXML.write_logical_file_sequence_to_xml', 'write_logical_file_to_xml', 'log_pass_to_XML', 'frame_array_to_XML', 'frame_channel_to_XML', 'xml_rle_write',
            '_write_xml_eflr_object', 'xml_write_value', 'RP66V1.core.LogicalFile.LogicalIndex', 'common.Rle.create_rle'],
           harness='C18_index', func='index_xml', timeout=170 if q else 600, parts=15, unblock=True, stubs=['scratch file for LogicalIndex (path based API)']),
        Ob('las_html_summary_rows', 'ch', 'reference-rendered LAS 2.0 files (2..4 curves, 1..3 frames, wrapped or not, optional parameter section with a mnemonic repeated 0..2 times, '
           'values and descriptions from 6 strings with markup characters and quotes) through LASToHTML.las_file_to_html: the document parses, every header section has one table row per line of the '
           'file (mnemonic, units, typed value, description unchanged), the array table one row per curve, the returned summary names the sections, channels and frame count',
           ['LAS.LASToHTML.las_file_to_html', 'las_section_to_html', 'las_section_members_to_html_table', 'write_file_array', 'write_forward_index', 'write_file_metadata',
            'common.ToHTML.html_write_table', 'util.XmlWrite.XhtmlStream', 'LAS.core.LASRead.LASRead'],
           harness='C18_las', func='las_html_summary', timeout=170 if q else 600, parts=18, unblock=True, stubs=['scratch files (the converter is path based)']),
        Ob('rp66v1_html_summary_document', 'ch', 'reference-encoded RP66V1 files (a table whose set type, column label, object name and value contain markup characters and quotes - 6 strings each -, '
           'channels and frame type named likewise, units from the same strings, 0..3 frame records, 1..2 logical files, one visible record per record or shared, tables sorted or not) through '
           'ScanHTML.html_scan_RP66V1_file_data_content: the document parses (with the XHTML entity nbsp) and every such string appears unchanged in a heading, link or cell; the table heading gives type and shape',
           ['RP66V1.ScanHTML.html_scan_RP66V1_file_data_content', 'html_write_body', 'html_write_table_of_contents', 'html_write_EFLR_as_table', '_write_log_pass_content_in_html', '_write_frame_array_in_html',
            'util.XmlWrite.XhtmlStream', 'RP66V1.core.LogicalFile.LogicalIndex'],
           harness='C18_scanhtml', func='scan_html', timeout=170 if q else 600, parts=6, unblock=True, stubs=['scratch file for LogicalIndex (path based API)']),
        Ob('rle_float_index_entries_expand', 'ch', 'float X sequences of length 2..5: 4 start values (0.1, 1000, 1.6e12, negative) x 4 strides x per-value deviation from the '
           'extrapolated value (none, one unit in the last place, 1e-10 and 1e-7 relative, a quarter stride)',
           ['RP66V1.IndexXML.xml_rle_write', 'common.Rle.create_rle', 'common.Rle.RLEItem.add/values', 'util.XmlWrite.Element'], harness='C18_xml', func='rle_float_entries',
           timeout=170 if q else 600, classify=_classify_float_rle, parts=16),
    ]
