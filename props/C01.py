"""C01 DLIS logical records are reassembled exactly from any physical layout (DESIGN.md section 5, C01)."""
import z3

from engine import kern
from engine import py2smt as P
from engine import re2smt
from engine.core import Ob, excluded

CLAIM = dict(
    engine='crosshair+re2smt+py2smt',
    technique='CrossHair symbolic execution of pFile.FileRead over files laid out by a reference RP66V1 encoder from symbolic segment options; '
              'z3 regular-expression inclusion for the storage unit label fields; SMT kernels for the segment header arithmetic',
    text='Bounded symbolic checking: (1) the SUL field patterns read from the live module are shown to accept every conformant rendering of every '
         'sequence number / maximum record length (regex language inclusion, all field values) and to capture the written number; (2) segment payload '
         'length / padding predicates are proved against RP66V1 2.2.2.1 for every attribute byte and length; (3) the sequential reader is executed '
         'symbolically on every layout of 2 (quick) and 3 (thorough) segments: pad counts, checksum, trailing length, encryption flags, visible-record '
         'splits, record boundary and symbolic payload bytes - result must equal the model that was encoded.',
    note='Trusted: CrossHair + ch_bits plugin, z3 sequence theory, spec/rp66_ref.py (encoder written from the standard), SymFile. '
         'Outside: more than 3 segments / 2 logical records, payloads longer than ~14 bytes (the reader slices, it does not loop over payload bytes), '
         'non-conformant files, file-system errors.',
)
META = dict(
    explanation='Structured symbolic files: the harness encodes a model (records -> segments with symbolic options) with spec/rp66_ref.encode and the real '
                'FileRead must return the model.  Arbitrary-buffer exploration was measured as not exhaustible (DESIGN.md section 3) and is not part of the claim.',
    trusted_base=['crosshair-tool + ch_bits', 'z3 (seq/regex)', 'spec/rp66_ref.py', 'engine/symio.SymFile'],
    outside=['> 3 segments, > 2 records, > 3 visible records', 'identifier text other than printable ASCII'],
    assumptions=['conformant files only (even segment length >= 16, pad count >= 1)'],
)


def _spec_number_field(width):
    d19 = z3.Range('1', '9')
    d09 = z3.Range('0', '9')
    pad = z3.Star(z3.Union(z3.Re('0'), z3.Re(' ')))
    return pad, z3.Concat(d19, z3.Star(d09))


def ob_sul_regex(which, attr, width):
    def fn():
        from TotalDepth.RP66V1.core import pFile
        from TotalDepth.util import bin_file_type
        if which == 'pFile':
            rx = getattr(pFile.StorageUnitLabel, attr)
        else:
            rx = bin_file_type.RE_COMPILED['RP66V1'][attr]
        if not re2smt.is_anchored(rx):
            return dict(verdict='unknown', note='pattern %r is not anchored' % rx.pattern)
        whole = re2smt.to_z3(rx)
        pre, grp, post = re2smt.group_re(rx, 1)
        padre, numre = _spec_number_field(width)
        p, d = z3.String('pad'), z3.String('digits')
        s = z3.Concat(p, d)
        assume = [z3.InRe(p, padre), z3.InRe(d, numre), z3.Length(s) == width]
        # accepted, and the captured group is exactly the digits that were written
        goal = [z3.InRe(s, whole), z3.And(z3.InRe(p, pre), z3.InRe(d, grp), z3.InRe(z3.StringVal(''), post))]
        r = P.decide(assume, goal, names=['pad', 'digits'], timeout_s=60)
        r['functions'] = ['%s %s pattern %r' % (which, attr, re2smt.pattern_text(rx))]
        return r

    def replay(m):
        from TotalDepth.RP66V1.core import pFile
        from TotalDepth.util import bin_file_type
        import io
        field = (m.get('pad', '') + m.get('digits', '')).strip('"').encode('latin-1')
        seqf = field if width == 4 else b'0001'
        maxf = field if width == 5 else b'08192'
        sul = seqf + b'V1.00RECORD' + maxf + b'Default Storage Set'.ljust(60)
        body = bytes([0, 20, 0xff, 1, 0, 16, 0x80, 0]) + bytes(12)
        outs = []
        bad = False
        try:
            s = pFile.StorageUnitLabel(sul)
            got = s.storage_unit_sequence_number if width == 4 else s.maximum_record_length
            outs.append('StorageUnitLabel -> %r' % got)
            bad = bad or got != int(field.replace(b' ', b'0'))
        except Exception as e:
            outs.append('StorageUnitLabel raised %s' % type(e).__name__)
            bad = True
        t = bin_file_type.binary_file_type(io.BytesIO(sul + body))
        outs.append('binary_file_type -> %r' % t)
        bad = bad or t != 'RP66V1'
        return bad, 'SUL field %r: %s' % (field, '; '.join(outs))

    def classify(m):
        return None
    return Ob('sul_%s_%s_accepts_every_number' % (which, attr), 'smt', 'every %d-character zero/blank padded decimal field' % width,
              ['%s %s' % (which, attr)], fn=fn, replay=replay)


def ob_lrsh_kernels():
    def fn():
        from TotalDepth.RP66V1.core import pFile
        ctx = P.Ctx()
        I = P.Interp(ctx)
        a = z3.BitVec('attr', 8)
        ln = z3.BitVec('length', 16)
        attrs = ctx.new_obj(pFile.LogicalRecordSegmentHeaderAttributes, {'attributes': ctx.from_bv(a)})
        h = ctx.new_obj(pFile.LogicalRecordSegmentHeader, {'position': 100, 'length': ctx.from_bv(ln), 'attributes': attrs, 'record_type': 0})
        prop = lambda cls, name, o: I.call(getattr(cls, name).fget, [o])
        A = pFile.LogicalRecordSegmentHeaderAttributes
        H = pFile.LogicalRecordSegmentHeader
        bit = lambda k: z3.Extract(k, k, a) == 1
        exp = dict(is_eflr=bit(7), is_first=z3.Not(bit(6)), is_last=z3.Not(bit(5)), is_encrypted=bit(4), has_encryption_packet=bit(3),
                   has_checksum=bit(2), has_trailing_length=bit(1), has_pad_bytes=bit(0))
        goals = []
        oks = []
        for name, e in exp.items():
            o = prop(A, name, attrs)
            oks.append(o.ok())
            goals.append(ctx.lift_bool(o.value) == e)
        ldl = prop(H, 'logical_data_length', h)
        msp = prop(H, 'must_strip_padding', h)
        nxt = prop(H, 'next_position', h)
        ldp = prop(H, 'logical_data_position', h)
        L = z3.ZeroExt(48, ln)
        want = L - 4 - z3.If(bit(2), z3.BitVecVal(2, 64), z3.BitVecVal(0, 64)) - z3.If(bit(1), z3.BitVecVal(2, 64), z3.BitVecVal(0, 64))
        goals += [ctx.lift_int(ldl.value) == want, ctx.lift_bool(msp.value) == z3.And(bit(0), z3.Not(bit(4))),
                  ctx.lift_int(nxt.value) == 100 + L, ctx.lift_int(ldp.value) == 104]
        r = P.decide([], [z3.And(*oks, ldl.ok(), msp.ok(), nxt.ok(), ldp.ok())] + goals, side=ctx.side, names=['attr', 'length'])
        r['functions'] = sorted(ctx.encoded)
        return r

    def replay(m):
        from TotalDepth.RP66V1.core import pFile
        import io
        a, ln = m.get('attr', 0), m.get('length', 0)
        f = io.BytesIO(bytes([ln >> 8, ln & 0xff, a, 0]))
        h = pFile.LogicalRecordSegmentHeader(f)
        want = ln - 4 - (2 if a & 4 else 0) - (2 if a & 2 else 0)
        at = h.attributes
        got = (at.is_eflr, at.is_first, at.is_last, at.is_encrypted, at.has_checksum, at.has_trailing_length, at.has_pad_bytes, h.logical_data_length, h.must_strip_padding)
        exp = (bool(a & 0x80), not a & 0x40, not a & 0x20, bool(a & 0x10), bool(a & 4), bool(a & 2), bool(a & 1), want, bool(a & 1) and not a & 0x10)
        return got != exp, 'LRSH attr %#x length %d: %r, RP66V1 figure 2-3: %r' % (a, ln, got, exp)
    return Ob('lrsh_attribute_and_length_kernels', 'smt', 'every attribute byte and every 16-bit segment length',
              ['RP66V1.core.pFile.LogicalRecordSegmentHeaderAttributes.*', 'LogicalRecordSegmentHeader.logical_data_length/must_strip_padding/next_position'],
              fn=fn, replay=replay)


def obligations(tier):
    q = tier == 'quick'
    obs = [ob_sul_regex('pFile', 'RE_STORAGE_UNIT_SEQUENCE_NUMBER', 4), ob_sul_regex('pFile', 'RE_MAXIMUM_RECORD_LENGTH', 5), ob_lrsh_kernels()]
    obs.append(Ob('sul_sequence_number_reported', 'ch', 'sequence number field: blank + 3 symbolic characters (blank/digit)', ['pFile.StorageUnitLabel.__init__'],
                  harness='C01_pfile', func='sul_fields_seq', timeout=170 if q else 900, parts=11))
    obs.append(Ob('sul_max_record_length_reported', 'ch', 'maximum record length field: 2 fixed + 3 symbolic characters (blank/digit), value 20..16384', ['pFile.StorageUnitLabel.__init__'],
                  harness='C01_pfile', func='sul_fields_max', timeout=170 if q else 900, parts=11))
    obs.append(Ob('sul_max_record_length_five_digits_reported', 'ch', 'maximum record length field: 1 + 4 symbolic digits, value 10000..16384', ['pFile.StorageUnitLabel.__init__'],
                  harness='C01_pfile', func='sul_fields_max_high', timeout=170 if q else 900, parts=7))
    obs.append(Ob('visible_record_length_boundaries', 'ch', '2 visible records, each filled exactly by one segment: lengths 20 (minimum) / 8192 / 16382 / 16384 (maximum), pad 0..2, trailing length on/off; label declares the largest length; also read from a stream already partly or wholly consumed, twice',
                  ['pFile.VisibleRecord._read (MIN_LENGTH / MAX_LENGTH)', 'pFile.FileRead.iter_logical_records'], harness='C01_pfile', func='vr_length_boundaries',
                  timeout=170 if q else 900, stubs=['SymFile']))
    obs.append(Ob('sequential_read_two_segments_quick', 'ch', '2 segments as 1 or 2 logical records, pad 0..2 (second segment also: nothing but 12 pad bytes), checksum/encrypted on both, trailing length on the first, 1..2 visible records, symbolic payload bytes',
                  ['pFile.FileRead._enter/iter_logical_records/_seek_and_read_next_logical_record_segment_header/_read_full_logical_data', 'pFile.VisibleRecord._read',
                   'pFile.LogicalRecordSegmentHeader._read', 'pFile.FileLogicalData'], harness='C01_pfile', func='seq_two_segments_q',
                  timeout=170, stubs=['SymFile'], parts=16, tiers=('quick',)))
    obs.append(Ob('sequential_read_two_segments', 'ch', '2 segments as 1 or 2 logical records, pad 0..3 or a pad-only segment, checksum/trailing/encrypted flags, 1..2 visible records, symbolic payload bytes',
                  ['pFile.FileRead._enter/iter_logical_records/_seek_and_read_next_logical_record_segment_header/_read_full_logical_data', 'pFile.VisibleRecord._read',
                   'pFile.LogicalRecordSegmentHeader._read', 'pFile.FileLogicalData'], harness='C01_pfile', func='seq_two_segments',
                  timeout=1800, stubs=['SymFile'], parts=16, tiers=('thorough',)))
    obs.append(Ob('sequential_read_three_segments', 'ch', '3 segments as 1..2 logical records (split anywhere), pad 0..2, selected flag bits, 1..3 visible records',
                  ['pFile.FileRead.iter_logical_records and helpers'], harness='C01_pfile', func='seq_three_segments', timeout=3000, stubs=['SymFile'], tiers=('thorough',), parts=12))
    return obs
