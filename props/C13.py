"""C13 Western Atlas BIT log passes decode to the recorded numbers (DESIGN.md section 5, C13)."""
import struct

import z3

from engine import kern
from engine import py2smt as P
from engine.core import Ob, excluded
from spec import repcodes as S
from spec import repcodes_ref as REF

CLAIM = dict(
    engine='py2smt+crosshair',
    technique='SMT (z3 QF_FPBV) equivalence of the two BIT float decoders with the IBM hex-float formula and RP66V1 ISINGL over all 2^32 words; '
              'CrossHair symbolic execution of the block de-interleave, frame counting, TIF block walk and X-axis arithmetic',
    text='Bounded symbolic checking: bytes_to_float and gen_floats are translated from source and proved equal to the IBM single-precision '
         'value (and to ISINGL) on every 4-byte pattern; the channel-major de-interleave, frame count and computed X axis are executed '
         'symbolically by CrossHair for 1..3 channels, 1..2 data blocks of 1..3 frames with symbolic payload bytes and symbolic start/stop/spacing; whole TIF-marked files of 1..3 log passes, terminated or ending with the medium.',
    note='Trusted: z3, CrossHair, py2smt translator (validated per run), spec/repcodes.py ibm_single. Stubs: SymFile (pure-Python file), '
         'PyStruct (struct.Struct -> struct.unpack), list-backed numpy stand-in for FrameChannel storage. Outside: header description text, >3 channels.',
)

META = dict(
    explanation='E1 obligations translate ReadBIT.bytes_to_float / gen_floats (current source) to z3 FP terms and compare with the IBM formula on '
                'every 32-bit pattern; E4 obligations run BITFrameArray / create_bit_frame_array_from_file under CrossHair on symbolic structure.',
    trusted_base=['z3', 'crosshair-tool 0.0.110 + ch_bits plugin', 'engine/py2smt.py', 'spec/repcodes.py'],
    outside=['description text fields', 'more than 3 channels / 2 blocks / 3 frames per block (arithmetic is uniform in those sizes)', 'float rounding of the X axis accumulation (Real model)'],
    assumptions=['header spacing > 0 (as in every example file)'],
)


def _bit():
    from TotalDepth.BIT import ReadBIT
    return ReadBIT


def ob_float(which):
    def fn():
        B = _bit()
        ctx = P.Ctx()
        I = P.Interp(ctx)
        bvs = [z3.BitVec('b%d' % i, 8) for i in range(4)]
        by = [ctx.from_bv(b) for b in bvs]
        if which == 'bytes_to_float':
            out = I.call(B.bytes_to_float, [by])
            val = out.value
            real = lambda **kw: B.bytes_to_float(bytes(kw['b%d' % i] for i in range(4)))
        else:
            out = I.call(B.gen_floats, [by])
            extra_goal = []
            if isinstance(out.value, P.CondList) and out.value.items:
                # conditional yields: exactly one of them must happen for a 4-byte input, its value is the value generated
                items = out.value.items
                conds = [c if z3.is_expr(c) else z3.BoolVal(bool(c)) for c, v in items]
                extra_goal.append(z3.PbEq([(c, 1) for c in conds], 1))
                e = ctx.lift_float(items[-1][1])
                for c, v in reversed(list(zip(conds, [v for _, v in items]))[:-1]):
                    e = z3.If(c, ctx.lift_float(v), e)
                val = P.SFloat(e)
            elif isinstance(out.value, list) and len(out.value) == 1:
                val = out.value[0]
            else:
                return kern.harness_error('gen_floats on 4 bytes did not yield exactly one value: %r' % (out.value,))
            out.value = val
            real = lambda **kw: list(B.gen_floats(bytes(kw['b%d' % i] for i in range(4))))[0]
        word = z3.Concat(*bvs)
        spec = S.ibm_single(word)
        rnd = kern.rng(13)
        smp = [e[0].to_bytes(4, 'big') for e in S.RP_EXAMPLES_ISINGL] + [bytes(rnd.getrandbits(8) for _ in range(4)) for _ in range(40)]
        var_of = {'b%d' % i: (bvs[i], lambda v: z3.BitVecVal(v, 8)) for i in range(4)}
        bad = kern.validate(out, var_of, [{('b%d' % i): s[i] for i in range(4)} for s in smp], real)
        if bad:
            return kern.harness_error('translator validation failed: ' + '; '.join(bad[:3]))
        for wv, fv in S.RP_EXAMPLES_ISINGL:
            if REF.ibm_single(wv) != fv:
                return kern.harness_error('spec self-test failed')
        assume = []
        if which == 'gen_floats' and excluded('gen_floats_divisor'):
            # known finding: the mantissa is divided by 0xffffff instead of 2**24.  So that any OTHER deviation is still found the
            # oracle becomes the IBM formula with exactly that divisor (sign, exponent, byte order, scaling all still checked).
            f = z3.ZeroExt(40, z3.Extract(23, 0, word))
            e = z3.ZeroExt(56, z3.Extract(30, 24, word))
            mant = z3.fpDiv(P.RNE, z3.fpSignedToFP(P.RNE, f, P.F64), z3.FPVal(float(0xffffff), P.F64))
            k = (e - 64) * 4
            p2 = z3.fpFP(z3.BitVecVal(0, 1), z3.Extract(10, 0, k + 1023), z3.BitVecVal(0, 52))
            mag = z3.fpMul(P.RNE, mant, p2)
            spec = z3.If(z3.Extract(31, 31, word) == 1, z3.fpNeg(mag), mag)
        goal = [out.ok(), z3.fpEQ(ctx.lift_float(val), spec)] + (extra_goal if which == 'gen_floats' else [])
        r = P.decide(assume, goal, side=out.side, names=['b0', 'b1', 'b2', 'b3'], timeout_s=120)
        r['functions'] = sorted(ctx.encoded)
        return r

    def replay(m):
        B = _bit()
        from TotalDepth.RP66V1.core import RepCode
        from TotalDepth.RP66V1.core.File import LogicalData
        by = bytes(m.get('b%d' % i, 0) for i in range(4))
        exp = REF.ibm_single(int.from_bytes(by, 'big'))
        a = B.bytes_to_float(by)
        g = list(B.gen_floats(by))[0]
        i = RepCode.ISINGL(LogicalData(by))
        got = a if which == 'bytes_to_float' else g
        return got != exp, 'bytes %s: bytes_to_float %r, gen_floats %r, ISINGL %r, IBM value %r' % (by.hex(), a, g, i, exp)

    def classify(m):
        B = _bit()
        by = bytes(m.get('b%d' % i, 0) for i in range(4))
        if which != 'gen_floats':
            return None
        f = int.from_bytes(by[1:], 'big')
        known = (f / 0xffffff) * 16.0 ** ((by[0] & 0x7f) - 64) * (-1 if by[0] & 0x80 else 1)
        return 'gen_floats_divisor' if list(B.gen_floats(by))[0] == known else None
    return Ob('bit_%s_eq_ibm' % which, 'smt', 'every 4-byte pattern', ['TotalDepth.BIT.ReadBIT.' + which], fn=fn, replay=replay, classify=classify, timeout=120)


def ob_isingl_same():
    def fn():
        B = _bit()
        from TotalDepth.RP66V1.core import pRepCode as RP
        from TotalDepth.RP66V1.core.pFile import LogicalData
        ctx = P.Ctx()
        I = P.Interp(ctx)
        bvs = [z3.BitVec('b%d' % i, 8) for i in range(4)]
        by = [ctx.from_bv(b) for b in bvs]
        a = I.call(B.bytes_to_float, [by])
        ld = ctx.new_obj(LogicalData, {'bytes': by, 'index': 0, '_sha1': None})
        b = I.call(RP.ISINGL, [ld])
        goal = [z3.And(a.ok(), b.ok()), ctx.lift_float(a.value) == ctx.lift_float(b.value)]
        r = P.decide([], goal, side=a.side + b.side, names=['b0', 'b1', 'b2', 'b3'], timeout_s=120)
        r['functions'] = sorted(ctx.encoded)
        return r

    def replay(m):
        B = _bit()
        from TotalDepth.RP66V1.core import RepCode
        from TotalDepth.RP66V1.core.File import LogicalData
        by = bytes(m.get('b%d' % i, 0) for i in range(4))
        a, b = B.bytes_to_float(by), RepCode.ISINGL(LogicalData(by))
        return struct.pack('>d', a) != struct.pack('>d', b), 'bytes %s: bytes_to_float %r ISINGL %r' % (by.hex(), a, b)
    return Ob('bit_header_decoder_eq_ISINGL', 'smt', 'every 4-byte pattern, bit-for-bit', ['BIT.ReadBIT.bytes_to_float', 'RP66V1.core.pRepCode.ISINGL'], fn=fn, replay=replay)


def ob_range():
    """LogPassRange.frames / is_increasing and the X-axis recurrence of BITFrameArray.complete over the reals."""
    def fn():
        B = _bit()
        ctx = P.Ctx(int_mode='int', float_mode='real')
        I = P.Interp(ctx)
        f, t, s = z3.Reals('depth_from depth_to spacing')
        rng_ = ctx.new_obj(B.LogPassRange, {'depth_from': P.SFloat(f), 'depth_to': P.SFloat(t), 'spacing': P.SFloat(s), 'unknown_a': 0.0, 'unknown_b': 0.0})
        inc = I.call(B.LogPassRange.is_increasing.fget, [rng_])
        fr = I.call(B.LogPassRange.frames.fget, [rng_])
        n = ctx.lift_int(fr.value)
        dist = z3.If(f > t, f - t, t - f)
        goal = [z3.And(inc.ok(), fr.ok()), ctx.lift_bool(inc.value) == (t > f),
                # frames = 1 + round-half-up(|from-to| / |spacing|): the last frame is within half a spacing of the stop depth
                z3.And(n >= 1, (z3.ToReal(n) - 1) * s <= dist + s / 2, (z3.ToReal(n) - 1) * s > dist - s / 2)]
        r = P.decide([s > 0], goal, side=inc.side + fr.side, names=['depth_from', 'depth_to', 'spacing'])
        r['functions'] = sorted(ctx.encoded)
        return r

    def replay(m):
        B = _bit()
        from fractions import Fraction
        v = {k: float(Fraction(m[k])) for k in ('depth_from', 'depth_to', 'spacing')}
        r = B.LogPassRange(v['depth_from'], v['depth_to'], v['spacing'], 0.0, 0.0)
        n = r.frames
        dist = abs(v['depth_from'] - v['depth_to'])
        ok = r.is_increasing == (v['depth_to'] > v['depth_from']) and n >= 1 and (n - 1) * v['spacing'] <= dist + v['spacing'] / 2 and (n - 1) * v['spacing'] > dist - v['spacing'] / 2
        return not ok, 'LogPassRange(%r).frames=%r is_increasing=%r' % (v, n, r.is_increasing)
    return Ob('bit_range_frames_direction', 'smt', 'every real start/stop and spacing > 0 (rounding outside)', ['BIT.ReadBIT.LogPassRange.frames', 'LogPassRange.is_increasing'],
              fn=fn, replay=replay)


def obligations(tier):
    obs = [ob_float('bytes_to_float'), ob_float('gen_floats'), ob_isingl_same(), ob_range()]
    obs.append(Ob('bit_deinterleave_blocks', 'ch', '1..3 channels, 1..2 data blocks of 1..3 frames each, either direction, header range far longer than or shorter than the frames recorded',
                  ['BIT.ReadBIT.BITFrameArray.__init__/add_block/complete', 'ReadBIT.gen_floats'], harness='C13_bit', func='check_blocks',
                  timeout=120 if tier == 'quick' else 600, stubs=['list-backed numpy stand-in (engine/fakenp.py) for LogPass.FrameChannel storage']))
    obs.append(Ob('bit_deinterleave_symbolic_bytes', 'ch', '2 channels, 1..2 blocks of 2 / 1..2 frames, one fully symbolic mantissa byte per block',
                  ['BIT.ReadBIT.BITFrameArray.add_block/complete', 'ReadBIT.gen_floats'], harness='C13_bit', func='check_blocks_data',
                  timeout=120 if tier == 'quick' else 900, stubs=['list-backed numpy stand-in (engine/fakenp.py) for LogPass.FrameChannel storage', 'gen_floats replaced by a 4-byte tuple generator in this obligation only (value map = the SMT obligations)']))
    obs.append(Ob('bit_file_walk', 'ch', '1..3 log passes, 1..2 channels, 0..2 blocks (0 = header only), TIF chain with symbolic block sizes; file ending with both trailing type-1 markers, without the end-of-file marker, or straight after the last data block; the type test and two reads on one file object',
                  ['BIT.ReadBIT.yield_tif_blocks', 'ReadBIT.create_bit_frame_array_from_file', 'BITFrameArray'], harness='C13_bit', func='check_file',
                  timeout=150 if tier == 'quick' else 900, parts=3, stubs=['SymFile', 'PyStruct for TIF_WORD_STRUCT', 'list-backed numpy stand-in']))
    obs.append(Ob('bit_many_channels', 'ch', 'whole files of 1..2 log passes with 1 / 2 / 10 / 17 / 19 / 20 channels (20 = every slot of the header name table), 1..2 data blocks of 1..3 frames, up or down; '
                  'real numpy storage: names in header order, frame count, channel-major de-interleave, X axis',
                  ['BIT.ReadBIT.BITFrameArray.__init__ (channel count and name table)', 'BITFrameArray.add_block/complete', 'ReadBIT.create_bit_frame_array_from_file', 'ReadBIT.is_bit_file'],
                  harness='C13_wide', func='bit_wide', timeout=150 if tier == 'quick' else 600))
    return obs
