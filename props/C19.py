"""C19 Plotted curves stay inside their track and wrap consistently (DESIGN.md section 5, C19)."""
import z3

from engine import py2smt as P
from engine.core import Ob

CLAIM = dict(
    engine='py2smt+crosshair',
    technique='SMT (z3 nonlinear real arithmetic, log10 as an uninterpreted function with quotient axioms) over LineTransLin / LineTransLog10 '
              'translated from source; CrossHair symbolic execution of the wrap interpolation and crossing-line filter',
    text='Bounded symbolic checking: for EVERY real scale (left != right, either direction), every track (leftP < rightP) and every value the linear '
         'and logarithmic transforms give a position inside [leftP, rightP) with position + wrap * width == unwrapped position (L2P); log scales refuse '
         'values <= 0. The polyline break at a wrap (Plot._retInterpolateWrapPoints, _filterCrossLineList) is executed symbolically for wraps in -3..3, '
         'all back-up modes: generated points lie on the track edges, X between the two samples, none when both ends are off scale on the same side. '
         'The scale edges map to the track edges. Whole plots: 1..2 curves on any of 11 tracks (full, half, double) in any of 4 modes over a signal that runs up to 50 scale widths off scale are plotted to SVG and every polyline point '
         'is checked against the track of its own curve.',
    note='Trusted: z3 NRA, CrossHair, py2smt; log10 is uninterpreted with the instances log10(a/b) = log10 a - log10 b and injectivity on the two scale '
         'edges. Outside: binary64 rounding in the SMT obligations; the XML-configured (non LIS) plot formats. Whole plots are decided only on the bounded '
         'family of LIS log passes of obligation svg_curves_inside_own_track (every point parsed back from the SVG).',
)
META = dict(
    explanation='Real-arithmetic encodings of PRESCfg.LineTransLin/LineTransLog10 (__init__, L2P, wrapPos) + CrossHair conditions on Plot wrap interpolation.',
    trusted_base=['z3 (NRA + UF)', 'crosshair-tool', 'engine/py2smt.py', 'log10 axiom instances'],
    outside=['floating-point rounding at the track edge', 'whole-document SVG generation, XML plot configuration files'],
    assumptions=['floats as reals'],
)


def _mk(ctx, I, cls, lP, rP, lL, rL):
    from TotalDepth.util.plot import PRESCfg
    o = ctx.new_obj(cls, {})
    out = I.call(cls.__init__, [o, P.SFloat(lP), P.SFloat(rP), P.SFloat(lL), P.SFloat(rL), PRESCfg.BACKUP_ALL])
    return o, out


def ob_lin():
    def fn():
        from TotalDepth.util.plot import PRESCfg
        ctx = P.Ctx(int_mode='int', float_mode='real')
        I = P.Interp(ctx)
        lP, rP, lL, rL, val = z3.Reals('lP rP lL rL val')
        o, init = _mk(ctx, I, PRESCfg.LineTransLin, lP, rP, lL, rL)
        wp = I.call(PRESCfg.LineTransLin.wrapPos, [o, P.SFloat(val)])
        l2p = I.call(PRESCfg.LineTransLin.L2P, [o, P.SFloat(val)])
        # the unwrapped scale position is anchored at the scale edges: the left value lies on the left track edge, the right value on the right one
        at_l = I.call(PRESCfg.LineTransLin.L2P, [o, P.SFloat(lL)])
        at_r = I.call(PRESCfg.LineTransLin.L2P, [o, P.SFloat(rL)])
        w, f = wp.value
        wv, fv, lv = z3.ToReal(ctx.lift_int(w)), ctx.lift_float(f), ctx.lift_float(l2p.value)
        ok_dom = z3.And(lP < rP, lL != rL)
        goal = [z3.Implies(ok_dom, z3.And(init.ok(), wp.ok(), l2p.ok())),
                z3.Implies(lP >= rP, init.raised('ExceptionLineTransBase')),
                z3.Implies(ok_dom, z3.And(lP <= fv, fv < rP)),
                z3.Implies(ok_dom, fv + wv * (rP - lP) == lv),
                z3.Implies(ok_dom, z3.And(at_l.ok(), at_r.ok(), ctx.lift_float(at_l.value) == lP, ctx.lift_float(at_r.value) == rP))]
        r = P.decide([], goal, side=ctx.side, names=['lP', 'rP', 'lL', 'rL', 'val'], timeout_s=120)
        r['functions'] = sorted(ctx.encoded)
        return r

    def replay(m):
        from fractions import Fraction
        from TotalDepth.util.plot import PRESCfg
        g = lambda k: float(Fraction(m.get(k, '0/1')))
        lP, rP, lL, rL, val = g('lP'), g('rP'), g('lL'), g('rL'), g('val')
        try:
            t = PRESCfg.LineTransLin(lP, rP, lL, rL)
        except PRESCfg.ExceptionLineTransBase:
            return not (lP >= rP), 'constructor refused lP=%r rP=%r' % (lP, rP)
        except ZeroDivisionError:
            return lL != rL, 'ZeroDivisionError lL=%r rL=%r' % (lL, rL)
        if lP >= rP:
            return True, 'constructor accepted lP=%r >= rP=%r' % (lP, rP)
        etol = 1e-9 * (abs(rP) + abs(lP) + 1)
        if abs(t.L2P(lL) - lP) > etol or abs(t.L2P(rL) - rP) > etol:
            return True, 'LineTransLin(%r,%r,%r,%r): scale edges map to %r and %r, not to the track edges' % (lP, rP, lL, rL, t.L2P(lL), t.L2P(rL))
        w, f = t.wrapPos(val)
        tol = 1e-9 * (abs(rP) + abs(lP) + 1) * (abs(w) + 1)
        ok = lP - tol <= f < rP + tol and abs(f + w * (rP - lP) - t.L2P(val)) <= tol * 10
        return not ok, 'LineTransLin(%r,%r,%r,%r).wrapPos(%r) = (%r, %r), L2P = %r' % (lP, rP, lL, rL, val, w, f, t.L2P(val))
    return Ob('linear_wrap_in_track', 'smt', 'every real leftP < rightP, leftL != rightL (either direction; the scale edges map to the track edges), value', ['util.plot.PRESCfg.LineTransLin.__init__/L2P/wrapPos', 'LineTransBase.__init__'], fn=fn, replay=replay)


def ob_log():
    def fn():
        from TotalDepth.util.plot import PRESCfg
        ctx = P.Ctx(int_mode='int', float_mode='real')
        I = P.Interp(ctx)
        lP, rP, lL, rL, val = z3.Reals('lP rP lL rL val')
        o, init = _mk(ctx, I, PRESCfg.LineTransLog10, lP, rP, lL, rL)
        wp = I.call(PRESCfg.LineTransLog10.wrapPos, [o, P.SFloat(val)])
        l2p = I.call(PRESCfg.LineTransLog10.L2P, [o, P.SFloat(val)])
        at_l = I.call(PRESCfg.LineTransLog10.L2P, [o, P.SFloat(lL)])
        at_r = I.call(PRESCfg.LineTransLog10.L2P, [o, P.SFloat(rL)])
        L = ctx.uf_log10
        axioms = [L(rL / lL) == L(rL) - L(lL), L(val / lL) == L(val) - L(lL), (L(rL) == L(lL)) == (rL == lL), (L(rL) > L(lL)) == (rL > lL)]
        dom = z3.And(lP < rP, lL > 0, rL > 0, lL != rL)
        w, f = wp.value if wp.value is not None else (0, 0.0)
        wv, fv, lv = z3.ToReal(ctx.lift_int(w)), ctx.lift_float(f), ctx.lift_float(l2p.value)
        goal = [z3.Implies(z3.And(dom, val > 0), z3.And(init.ok(), wp.ok(), l2p.ok())),
                z3.Implies(z3.And(dom, val <= 0), wp.raised('ExceptionLineTransBaseMath')),
                z3.Implies(z3.And(dom, val > 0), z3.And(lP <= fv, fv < rP)),
                z3.Implies(z3.And(dom, val > 0), fv + wv * (rP - lP) == lv),
                # anchored at the scale edges, in either direction (log10 strictly increasing)
                z3.Implies(dom, z3.And(at_l.ok(), at_r.ok(), ctx.lift_float(at_l.value) == lP, ctx.lift_float(at_r.value) == rP))]
        r = P.decide(axioms, goal, side=ctx.side, names=['lP', 'rP', 'lL', 'rL', 'val'], timeout_s=120)
        r['functions'] = sorted(ctx.encoded)
        return r

    def replay(m):
        from fractions import Fraction
        from TotalDepth.util.plot import PRESCfg
        g = lambda k: float(Fraction(m.get(k, '0/1')))
        lP, rP, lL, rL, val = g('lP'), g('rP'), g('lL'), g('rL'), g('val')
        if not (lP < rP and lL > 0 and rL > 0 and lL != rL):
            return False, 'outside the domain'
        t = PRESCfg.LineTransLog10(lP, rP, lL, rL)
        etol = 1e-9 * (abs(rP) + abs(lP) + 1)
        if abs(t.L2P(lL) - lP) > etol or abs(t.L2P(rL) - rP) > etol:
            return True, 'LineTransLog10(%r,%r,%r,%r): scale edges map to %r and %r, not to the track edges' % (lP, rP, lL, rL, t.L2P(lL), t.L2P(rL))
        try:
            w, f = t.wrapPos(val)
        except PRESCfg.ExceptionLineTransBaseMath:
            return val > 0, 'wrapPos(%r) refused' % val
        if val <= 0:
            return True, 'wrapPos(%r) returned for a non-positive value' % val
        tol = 1e-9 * (abs(rP) + abs(lP) + 1) * (abs(w) + 1)
        ok = lP - tol <= f < rP + tol and abs(f + w * (rP - lP) - t.L2P(val)) <= tol * 10
        return not ok, 'LineTransLog10(%r,%r,%r,%r).wrapPos(%r) = (%r, %r), L2P = %r' % (lP, rP, lL, rL, val, w, f, t.L2P(val))
    return Ob('log10_wrap_in_track', 'smt', 'every real leftP < rightP, positive leftL != rightL (either direction; the scale edges map to the track edges), every value (<= 0 must be refused)',
              ['util.plot.PRESCfg.LineTransLog10.__init__/L2P/wrapPos'], fn=fn, replay=replay)


def ob_offscale():
    def fn():
        from TotalDepth.util.plot import PRESCfg
        ctx = P.Ctx(int_mode='int', float_mode='real')
        I = P.Interp(ctx)
        w, b0, b1 = z3.Ints('w bu_left bu_right')
        o = ctx.new_obj(PRESCfg.LineTransLin, {'_bu': (P.SInt(b0), P.SInt(b1))})
        off = I.call(PRESCfg.LineTransBase.offScale, [o, P.SInt(w)])
        left = I.call(PRESCfg.LineTransBase.isOffScaleLeft, [o, P.SInt(w)])
        right = I.call(PRESCfg.LineTransBase.isOffScaleRight, [o, P.SInt(w)])
        ov = ctx.lift_int(off.value)
        # documented back-up semantics: 0 = unlimited, n < 0 / n > 0 = number of wraps allowed on that side
        exp = z3.If(z3.And(w < 0, b0 != 0, w < b0), -1, z3.If(z3.And(w > 0, b1 != 0, w > b1), 1, 0))
        goal = [z3.And(off.ok(), left.ok(), right.ok()), ov == exp, ctx.lift_bool(left.value) == (exp == -1), ctx.lift_bool(right.value) == (exp == 1),
                z3.Implies(w == 0, ov == 0)]
        r = P.decide([], goal, side=ctx.side, names=['w', 'bu_left', 'bu_right'])
        r['functions'] = sorted(ctx.encoded)
        return r

    def replay(m):
        from TotalDepth.util.plot import PRESCfg
        w, b0, b1 = m.get('w', 0), m.get('bu_left', 0), m.get('bu_right', 0)
        t = PRESCfg.LineTransLin(0.0, 1.0, 0.0, 1.0, (b0, b1))
        exp = -1 if (w < 0 and b0 != 0 and w < b0) else 1 if (w > 0 and b1 != 0 and w > b1) else 0
        got = (t.offScale(w), t.isOffScaleLeft(w), t.isOffScaleRight(w))
        return got != (exp, exp == -1, exp == 1), 'offScale(%d) with backup (%d,%d) = %r, expected %r' % (w, b0, b1, got, exp)
    return Ob('offscale_backup_modes', 'smt', 'every integer wrap count and back-up pair', ['PRESCfg.LineTransBase.offScale/isOffScaleLeft/isOffScaleRight'], fn=fn, replay=replay)


def obligations(tier):
    q = tier == 'quick'
    return [ob_lin(), ob_log(), ob_offscale(),
            Ob('wrap_interpolation_points_small', 'ch', 'wrapPrev != wrapNow in -2..2, back-up modes (0,0) (-1,1) (-2,2), fixed X pair, either direction',
               ['util.plot.Plot.Plot._retInterpolateWrapPoints', 'Plot._filterCrossLineList', 'PRESCfg.LineTransBase.offScale'],
               harness='C19_plot', func='interp_points_small', timeout=170 if q else 600),
            Ob('wrap_interpolation_points', 'ch', 'wrapPrev != wrapNow in -3..3, back-up modes (0,0) (-1,1) (-2,2) (-1,0) (0,1), integer X pair -5..5 + -4..4',
               ['util.plot.Plot.Plot._retInterpolateWrapPoints', 'Plot._filterCrossLineList', 'PRESCfg.LineTransBase.offScale'],
               harness='C19_plot', func='interp_points', timeout=1500, tiers=('thorough',)),
            Ob('svg_curves_inside_own_track', 'ch', 'reference-encoded LIS log pass (25 frames, signal crossing zero, amplitudes 4 / 40 / 400 on a -8..8 linear or 0.25..2048 log scale) '
               'plotted through PlotReadLIS with a FILM table and a PRES table of 1..2 curves: tracks T1/T2/T3/T23 (first curve also the six half tracks LHTn/RHTn and T12; track extents from an independent table of the API three-track film) x modes none/WRAP/SHIF/GRAD per curve, '
               'both curves from one output channel or from two; frame X recorded in FEET or in tenth-inches (plot range always in FEET); up and down logs, with and without the API header (CONS table)',
               ['util.plot.Plot.PlotReadLIS.plotLogPassLIS', 'Plot.Plot._plotSingleOutput/_interpolateBackup/_retInterpolateWrapPoints', 'PRESCfg.PresCfgLISRead', 'FILMCfg.FilmCfgLISRead.interpretTrac',
                'PRESCfg.LineTransLin/LineTransLog10.wrapPos', 'util.plot.SVGWriter', 'LIS.core.LogPass.setFrameSet'],
               harness='C19_svg', func='svg_curves_in_track', timeout=170 if q else 600, parts=44),
            Ob('crossline_filter', 'ch', '0..12 crossing lines, MAX_BACKUP_TRACK_CROSSING_LINES as configured', ['util.plot.Plot.Plot._filterCrossLineList'],
               harness='C19_plot', func='filter_lines', timeout=120 if q else 600)]
