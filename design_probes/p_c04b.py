import numpy; numpy.object = object
import logging; logging.disable(logging.CRITICAL)
from typing import List
from TotalDepth.common import LogPass as CLP
from TotalDepth.RP66V1.core import LogPass as RLP, File, RepCode
import fakenp
CLP.np = fakenp.FakeNp

def mk(n_ch):
    fa = RLP.RP66V1FrameArray(RepCode.ObjectName(0, 0, b'F'), b'')
    codes = [15, 16, 15]   # USHORT, UNORM, USHORT
    dims = [[1], [1], [2]]
    for i in range(n_ch):
        fa.append(RLP.RP66V1FrameChannel(RepCode.ObjectName(0, 0, bytes([65 + i])), b'', b'', dims[i], 'x', codes[i]))
    return fa

def check(data: bytes, m1: bool, m2: bool) -> bool:
    """
    pre: len(data) == 10
    pre: True
    post: _
    """
    mask = [True, m1, m2]
    fa = mk(3)
    chans = {chr(65 + i) for i, m in enumerate(mask) if m}
    # two frames of 5 bytes each: A(1) B(2) C(2x1)
    fa.init_arrays_partial(2, chans)
    for fr in range(2):
        fa.read_partial(File.LogicalData(data[fr * 5:(fr + 1) * 5]), fr, chans)
    for fr in range(2):
        d = data[fr * 5:(fr + 1) * 5]
        if fa.channels[0].array[(fr, 0)] != d[0]: return False
        if mask[1] or False:
            if fa.channels[1].array[(fr, 0)] != d[1] * 256 + d[2]: return False
        else:
            if len(fa.channels[1].array) != 0: return False
        if mask[2]:
            if fa.channels[2].array[(fr, 0)] != d[3] or fa.channels[2].array[(fr, 1)] != d[4]: return False
        else:
            if len(fa.channels[2].array) != 0: return False
    return True
