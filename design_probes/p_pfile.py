import numpy; numpy.object = object
from typing import List, Tuple
from TotalDepth.RP66V1.core import pFile
from symfile import SymFile
import logging
logging.disable(logging.CRITICAL)

SUL = b'0001V1.00RECORD08192' + b' ' * 60

def ref_decode(buf) -> List[Tuple[bool, int, bytes]]:
    """Reference: buf is one visible record body region (after SUL): VRs with segments. Returns None if not conformant."""
    out = []
    pos = 0
    n = len(buf)
    cur = None
    while pos < n:
        if n - pos < 4: return None
        vlen = buf[pos] << 8 | buf[pos+1]
        if buf[pos+2] != 0xff or buf[pos+3] != 0x01: return None
        if vlen < 20 or vlen > 16384 or pos + vlen > n: return None
        end = pos + vlen
        p = pos + 4
        while p < end:
            if end - p < 16: return None
            slen = buf[p] << 8 | buf[p+1]
            attr = buf[p+2]; typ = buf[p+3]
            if slen < 16 or slen % 2 or p + slen > end: return None
            first = (attr & 0x40) == 0; last = (attr & 0x20) == 0
            if (cur is None) != first: return None
            tail = (2 if attr & 4 else 0) + (2 if attr & 2 else 0)
            body = buf[p+4:p+slen-tail]
            if len(body) < 0: return None
            if (attr & 1) and not (attr & 0x10):
                if len(body) < 1: return None
                pc = body[len(body)-1]
                if pc < 1 or pc > len(body): return None
                body = body[:len(body)-pc]
            if first:
                cur = [(attr & 0x80) != 0, typ, bytes(body)]
            else:
                if typ != cur[1]: return None
                cur[2] = cur[2] + bytes(body)
            if last:
                out.append(tuple(cur)); cur = None
            p += slen
        pos = end
    if cur is not None: return None
    return out

def check(buf: bytes) -> bool:
    """
    pre: len(buf) == 36
    post: _
    """
    ref = ref_decode(buf)
    if ref is None:
        return True
    f = SymFile(SUL + buf)
    got = []
    with pFile.FileRead(f) as fr:
        for fld in fr.iter_logical_records():
            got.append((fld.lr_is_eflr, fld.lr_type, fld.logical_data.bytes))
    return got == ref
