import struct, logging
from typing import List
from symfile import SymFile
from TotalDepth.LIS.core import PhysRec, TifMarker, RawStream, File
logging.disable(logging.CRITICAL)

class PyStruct:
    def __init__(self, fmt):
        self.format = fmt; self.size = struct.calcsize(fmt)
    def unpack(self, b): return struct.unpack(self.format, b)
    def pack(self, *a): return struct.pack(self.format, *a)
for mod in (PhysRec, TifMarker):
    for k, v in list(vars(mod).items()):
        if isinstance(v, struct.Struct):
            setattr(mod, k, PyStruct(v.format))

def ref(buf):
    """Reference LIS-79 physical record decode (no TIF, no padding). None if not conformant."""
    out = []; cur = None; pos = 0; n = len(buf)
    while pos < n:
        if n - pos < 4: return None
        ln = buf[pos] * 256 + buf[pos+1]
        at = buf[pos+2] * 256 + buf[pos+3]
        if at % 2**15 >= 2**14: return None          # PR type 1
        if at % 2**14 >= 2**13: return None          # undefined checksum
        tail = (2 if (at // 512) % 2 else 0) + (2 if (at // 1024) % 2 else 0) + (2 if (at // 4096) % 2 else 0)
        if ln < 4 + tail or pos + ln > n: return None
        succ = at % 2 == 1; pred = (at // 2) % 2 == 1
        if (cur is not None) != pred: return None
        ld = buf[pos+4:pos+ln-tail]
        if cur is None: cur = [pos, b'']
        cur[1] = cur[1] + bytes(ld)
        if not succ:
            out.append((cur[0], cur[1])); cur = None
        pos += ln
    if cur is not None: return None
    return out

def check(buf: bytes) -> bool:
    """
    pre: len(buf) == 14
    pre: buf[0] != 0 or buf[1] != 0 or buf[2] != 0 or buf[3] != 0
    post: _
    """
    r = ref(buf)
    if r is None or len(r) == 0:
        return True
    if any(len(ld) == 0 for _, ld in r):
        return True
    fr = File.FileRead(SymFile(buf), 'id', keepGoing=False)
    got = []
    while True:
        ld = fr.readLrBytes(-1)
        if ld is None:
            break
        got.append((fr.tellLr(), ld))
        try:
            fr.skipToNextLr()
        except File.ExceptionFile:
            break
        if fr.isEOF: break
    return got == r
