from typing import List
import types
from TotalDepth.LIS.core import Type01Plan

class _Ebs:
    def __init__(self, rm): self.recordingMode = rm; self.depthRepCode = 68
class _Dsb:
    def __init__(self, s): self.size = s
class _Dfsr:
    def __init__(self, sizes, rm):
        self.ebs = _Ebs(rm); self.dsbBlocks = [_Dsb(s) for s in sizes]

def plan_events(sizes: List[int], indirect: bool, start: int, stop: int, step: int, mask: List[bool]) -> bool:
    """
    pre: 1 <= len(sizes) <= 3
    pre: len(mask) == len(sizes)
    pre: all(1 <= s <= 3 for s in sizes)
    pre: 0 <= start <= 3
    pre: start < stop <= 4
    pre: 1 <= step <= 3
    pre: any(mask)
    post: _
    """
    plan = Type01Plan.FrameSetPlan(_Dfsr(sizes, 1 if indirect else 0))
    chans = [i for i, m in enumerate(mask) if m]
    cursor = 0
    reads = []   # (frame, ch_from, ch_to, offset, size)
    xframe = 0
    xs = []
    ind = plan.indirectSize
    for ty, siz, fr, c0, c1 in plan.genEvents(slice(start, stop, step), chans):
        if ty == Type01Plan.EVENT_READ:
            reads.append((fr, c0, c1, cursor, siz))
            cursor += siz
        elif ty == Type01Plan.EVENT_SKIP:
            if siz <= 0: return False
            cursor += siz
        else:
            xframe += siz
            if fr != xframe: return False
    # expected reads
    exp = []
    f = start
    while f < stop:
        for c in chans:
            exp.append((f, c, plan.chOffset(f, c), sizes[c]))
        f += step
    # flatten actual reads
    got = []
    for fr, c0, c1, off, siz in reads:
        if c1 is None:
            # standalone indirect read
            if off != 0 or siz != ind: return False
            continue
        o = off
        if c0 is None:
            if off != 0: return False
            o += ind; c0 = 0
        tot = 0
        for c in range(c0, c1 + 1):
            got.append((fr, c, o, sizes[c])); o += sizes[c]
        if o != off + siz: return False
    return got == exp
