import io
from TotalDepth.util import XmlWrite

def enc(c: str) -> bool:
    """
    pre: len(c) == 1
    post: _
    """
    s = XmlWrite.XmlStream(io.StringIO())
    out = s._encode(c)
    o = ord(c)
    legal = o in (9, 10, 13) or 0x20 <= o <= 0xD7FF or 0xE000 <= o <= 0xFFFD or 0x10000 <= o <= 0x10FFFF
    if out.startswith('&#') and out.endswith(';'):
        v = int(out[2:-1])
        ok_ref = v in (9, 10, 13) or 0x20 <= v <= 0xD7FF or 0xE000 <= v <= 0xFFFD or 0x10000 <= v <= 0x10FFFF
        if not ok_ref:
            return False
        return (not legal) or v == o
    return True
