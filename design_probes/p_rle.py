from typing import List
from TotalDepth.common import Rle

def rle_roundtrip(xs: List[int]) -> bool:
    """
    pre: 1 <= len(xs) <= 4
    pre: all(-3 <= x <= 3 for x in xs)
    post: _
    """
    r = Rle.create_rle(xs)
    if r.num_values() != len(xs): return False
    for i in range(len(xs)):
        if r.value(i) != xs[i]: return False
    if list(r.values()) != xs: return False
    if r.first() != xs[0] or r.last() != xs[-1]: return False
    return True

def rle_largest_le(xs: List[int], q: int) -> bool:
    """
    pre: 1 <= len(xs) <= 4
    pre: all(0 <= x <= 8 for x in xs)
    pre: all(a < b for a, b in zip(xs, xs[1:]))
    pre: xs[0] <= q <= 10
    post: _
    """
    r = Rle.create_rle(xs)
    return r.largest_le(q) == max(x for x in xs if x <= q)
