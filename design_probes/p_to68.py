import z3, time, sys
F64 = z3.Float64(); RNE = z3.RNE(); RTZ = z3.RTZ()
def pow2(e):  # e BV64 in [-1022,1023]
    return z3.fpFP(z3.BitVecVal(0,1), z3.Extract(10,0,e+1023), z3.BitVecVal(0,52))
def ldexp_i(m,e): return z3.fpMul(RNE, z3.fpSignedToFP(RNE, m, F64), pow2(e))
def from68(W):  # W BV64 (python int word 0..2^32-1)
    mant = W & 0x80000000
    isNeg = mant != 0
    mant = z3.If(isNeg, mant * -1, mant) >> 8
    mant = mant | (W & 0x007FFFFF)
    exp = (W & 0x7F800000) >> 23
    exp = z3.If(isNeg, 104 - exp, exp - 151)
    return ldexp_i(mant, exp)
def to68(v):   # v FP64 normal finite nonzero or zero
    bits = z3.fpToIEEEBV(v)
    ef = z3.ZeroExt(53, z3.Extract(62,52,bits))
    isz = z3.fpIsZero(v)
    e = z3.If(isz, z3.BitVecVal(0,64), ef - 1022)
    m = z3.If(isz, v, z3.fpFP(z3.Extract(63,63,bits), z3.BitVecVal(1022,11), z3.Extract(51,0,bits)))
    neg = z3.fpLT(v, z3.FPVal(0.0, F64))
    # if exp < -128: mant /= 2**(-128-exp); exp=-128
    small = e < -128   # signed compare
    sh = z3.If(small, -128 - e, z3.BitVecVal(0,64))
    m2 = z3.If(small, z3.fpDiv(RNE, m, pow2(sh)), m)
    e2 = z3.If(small, z3.BitVecVal(-128,64), e)
    ex = z3.If(neg, 127 - e2, e2 - 128)
    w = z3.If(neg, z3.BitVecVal(1,64), z3.BitVecVal(0,64))
    w = (w << 8) | (ex & 0xFF)
    w = w << 23
    mm = z3.fpMul(RNE, m2, z3.FPVal(float(1<<23), F64))
    mi = z3.fpToSBV(RTZ, mm, z3.BitVecSort(64))
    w = w | (mi & 0x007FFFFF)
    res = z3.If(e <= -(128+23), z3.BitVecVal(0x40000000,64),
          z3.If(e > 127, z3.If(neg, z3.BitVecVal(0xFFC00000,64), z3.BitVecVal(0x7FFFFFFF,64)), w))
    return res
which = sys.argv[1]
s = z3.Solver(); s.set('timeout', 120000)
if which == 'rt':
    w = z3.BitVec('w', 32); W = z3.ZeroExt(32, w)
    v = from68(W)
    s.add(z3.Not(z3.fpEQ(from68(to68(v)), v)))
else:
    vb = z3.BitVec('vb', 64); v = z3.fpBVToFP(vb, F64)
    s.add(z3.Not(z3.fpIsNaN(v)), z3.Not(z3.fpIsInf(v)), z3.Not(z3.fpIsSubnormal(v)))
    lo = z3.FPVal(-2.0**127, F64); hi = z3.FPVal((1-2.0**-23)*2.0**127, F64)
    s.add(z3.fpLEQ(lo, v), z3.fpLEQ(v, hi), z3.fpGEQ(z3.fpAbs(v), z3.FPVal(2.0**-129, F64)))
    r = from68(to68(v))
    err = z3.fpAbs(z3.fpSub(RNE, r, v))
    s.add(z3.Not(z3.fpLT(err, z3.fpMul(RNE, z3.fpAbs(v), z3.FPVal(2.0**-22, F64)))))
t = time.time(); r = s.check(); print(which, r, round(time.time()-t,1))
if str(r) == 'sat':
    m = s.model(); print(m)
