import z3, time
lP, rP, lL, rL, val = z3.Reals('lP rP lL rL val')
den = rL - lL; pW = rP - lP
p = (val - lL) / den
w = z3.ToReal(z3.ToInt(p))      # math.floor
f = lP + (p - w) * pW
scale = pW / den; offset = lP - scale * lL
L2P = offset + scale * val
s = z3.Solver(); s.set('timeout', 60000)
s.add(lP < rP, lL != rL)
s.add(z3.Not(z3.And(lP <= f, f < rP, f + w * pW == L2P)))
t = time.time(); print(s.check(), round(time.time() - t, 2))
# units: round trip identity over reals
v, s1, o1, s2, o2, s3, o3 = z3.Reals('v s1 o1 s2 o2 s3 o3')
def conv(v, sa, oa, sb, ob): return ((v - oa) * sa) / sb + ob
sol = z3.Solver(); sol.set('timeout', 60000)
sol.add(s1 != 0, s2 != 0, s3 != 0)
sol.add(z3.Or(conv(conv(v, s1, o1, s2, o2), s2, o2, s1, o1) != v,
              conv(conv(v, s1, o1, s2, o2), s2, o2, s3, o3) != conv(v, s1, o1, s3, o3)))
t = time.time(); print(sol.check(), round(time.time() - t, 2))
