import ch_bits
