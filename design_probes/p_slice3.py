from typing import Optional
from TotalDepth.common import Slice as S

class PySlice:
    """Pure-Python stand-in for builtin slice (PySlice_Unpack + PySlice_AdjustIndices, step > 0 or < 0)."""
    def __init__(self, start, stop, step):
        self.start, self.stop, self.step = start, stop, step
    def indices(self, length):
        step = 1 if self.step is None else self.step
        if step == 0: raise ValueError('slice step cannot be zero')
        if step > 0:
            lo, hi = 0, length
        else:
            lo, hi = -1, length - 1
        def adj(v, default):
            if v is None: return default
            if v < 0:
                v += length
                if v < lo: v = lo
            elif v > hi: v = hi
            return v
        if step > 0:
            return adj(self.start, 0), adj(self.stop, length), step
        return adj(self.start, length - 1), adj(self.stop, -1), step
    def __eq__(self, o): return (self.start, self.stop, self.step) == (o.start, o.stop, o.step)
S.slice = PySlice

def slice_sel(start: Optional[int], stop: Optional[int], step: Optional[int], n: int) -> bool:
    """
    pre: 0 <= n <= 6
    pre: start is None or -7 <= start <= 7
    pre: stop is None or -7 <= stop <= 7
    pre: step is None or 1 <= step <= 7
    post: _
    """
    s = S.Slice(start, stop, step)
    got = s.indices(n)
    st = 1 if step is None else step
    lo = 0 if start is None else (max(start + n, 0) if start < 0 else min(start, n))
    hi = n if stop is None else (max(stop + n, 0) if stop < 0 else min(stop, n))
    exp = [i for i in range(n) if lo <= i < hi and (i - lo) % st == 0]
    if got != exp: return False
    if s.count(n) != len(exp): return False
    if exp and s.first(n) != exp[0]: return False
    return list(s.gen_indices(n)) == exp
