import z3, re, time
try:
    import re._parser as sre_parse, re._constants as sc
except ImportError:
    import sre_parse, sre_constants as sc

def cls(items):
    parts = []; neg = False
    for op, av in items:
        if op == sc.NEGATE: neg = True
        elif op == sc.LITERAL: parts.append(z3.Re(chr(av)))
        elif op == sc.RANGE: parts.append(z3.Range(chr(av[0]), chr(av[1])))
        elif op == sc.CATEGORY and av == sc.CATEGORY_DIGIT: parts.append(z3.Range('0','9'))
        else: raise NotImplementedError((op, av))
    r = parts[0] if len(parts) == 1 else z3.Union(*parts)
    if neg:
        r = z3.Intersect(z3.AllChar(z3.ReSort(z3.StringSort())), z3.Complement(r))
    return r

def tr(seq):
    out = []
    for op, av in seq:
        if op == sc.LITERAL: out.append(z3.Re(chr(av)))
        elif op == sc.ANY: out.append(z3.AllChar(z3.ReSort(z3.StringSort())))
        elif op == sc.IN: out.append(cls(av))
        elif op in (sc.MAX_REPEAT, sc.MIN_REPEAT):
            lo, hi, sub = av; s = tr(sub)
            if hi == sc.MAXREPEAT:
                r = z3.Star(s)
                for _ in range(lo): r = z3.Concat(s, r)
            else: r = z3.Loop(s, lo, hi)
            out.append(r)
        elif op == sc.SUBPATTERN: out.append(tr(av[3]))
        elif op == sc.AT: continue
        else: raise NotImplementedError(op)
    if not out: return z3.Re('')
    return out[0] if len(out) == 1 else z3.Concat(*out)

from TotalDepth.RP66V1.core import pFile  # needs np.object patched
