import z3, time
w = z3.BitVec('w', 32)
W = z3.ZeroExt(32, w)  # python int as 64-bit
def ite(c,a,b): return z3.If(c,a,b)
F64 = z3.Float64(); RNE = z3.RNE()
def pow2(e):  # e: BV64 signed, assumed in [-1022,1023]
    return z3.fpFP(z3.BitVecVal(0,1), z3.Extract(10,0,e+1023), z3.BitVecVal(0,52))
def ldexp(m,e):
    return z3.fpMul(RNE, z3.fpSignedToFP(RNE, m, F64), pow2(e))
# implementation (pRepCode.from68)
mant = W & 0x80000000
isNeg = mant != 0
mant = ite(isNeg, mant * -1, mant)
mant = mant >> 8   # arithmetic shift
mant = mant | (W & 0x007FFFFF)
exp = (W & 0x7F800000) >> 23
exp = ite(isNeg, 104 - exp, exp - 151)
impl = ldexp(mant, exp)
# spec
S = z3.Extract(31,31,w); E = z3.ZeroExt(56, z3.Extract(30,23,w)); Fr = z3.ZeroExt(41, z3.Extract(22,0,w))
m_s = ite(S==1, Fr - (1<<23), Fr)
e_s = ite(S==1, 127 - E, E - 128) - 23
spec = ldexp(m_s, e_s)
s = z3.Solver()
s.add(z3.Not(z3.fpEQ(impl, spec)))
t=time.time(); print(s.check(), time.time()-t)
# to68(from68(w)) round trip style query: frexp modelling later
# C++ _from68 IR
c_mant = ite(z3.Extract(31,31,w)==0, z3.BitVecVal(0,32), z3.BitVecVal(-8388608,32)) | (w & 8388607)
c5 = z3.LShR(w,23) & 255
c_exp = ite(z3.Extract(31,31,w)==0, c5 - 151, 104 - c5)
cimpl = z3.fpMul(RNE, z3.fpSignedToFP(RNE, c_mant, F64), pow2(z3.SignExt(32,c_exp)))
s = z3.Solver(); s.add(z3.Not(impl == cimpl))
t=time.time(); print(s.check(), time.time()-t)
