import numpy; numpy.object = object
import io, logging
logging.disable(logging.CRITICAL)
from TotalDepth.RP66V1.core import pFile, File
from TotalDepth.RP66V1.core.LogicalRecord import EFLR

SUL = b'0001V1.00RECORD08192' + b' ' * 60
def seg(payload, first, last, typ=0, eflr=True):
    attr = (0x80 if eflr else 0) | (0 if first else 0x40) | (0 if last else 0x20)
    ln = 4 + len(payload)
    assert ln % 2 == 0 and ln >= 16
    return bytes([ln >> 8, ln & 255, attr, typ]) + payload
p1 = bytes(range(1, 13)); p2 = bytes(range(101, 113))
body = seg(p1, True, False) + seg(p2, False, True)
vr = bytes([(len(body) + 4) >> 8, (len(body) + 4) & 255, 0xff, 0x01]) + body
f = io.BytesIO(SUL + vr)
with pFile.FileRead(f) as fr:
    recs = list(fr.iter_logical_records())
    full = recs[0].logical_data.bytes
    pos = recs[0].position
    for off, ln in ((0, 4), (2, 12), (10, 4), (12, 3), (0, 24), (5, -1)):
        got = fr.get_file_logical_data(pos, off, ln).logical_data.bytes
        exp = full[off:off + ln] if ln >= 0 else full[off:]
        print('C02', off, ln, got == exp, list(got), list(exp))

# C03: template with invariant attribute then ordinary; one object.
def ident(b): return bytes([len(b)]) + b
ld = bytes([0xF0]) + ident(b'T')               # SET with type
ld += bytes([0x40 | 0x10 | 0x01]) + ident(b'A') + ident(b'x')   # INVATR label A value IDENT 'x' (default rc 19)
ld += bytes([0x20 | 0x10]) + ident(b'B')                        # ATTRIB label B
ld += bytes([0x70]) + bytes([0, 0]) + ident(b'O')                # OBJECT name
ld += bytes([0x20 | 0x01]) + ident(b'v')                         # attribute B value 'v'
try:
    e = EFLR.ExplicitlyFormattedLogicalRecord(3, File.LogicalData(ld))
    print('C03 inv', [ (a.label, a.value) if a is not None else None for a in e.objects[0].attrs])
except Exception as err:
    print('C03 inv EXC', repr(err))
# absent attribute in object
ld = bytes([0xF0]) + ident(b'T')
ld += bytes([0x20 | 0x10 | 0x01]) + ident(b'A') + ident(b'd')   # ATTRIB A default value 'd'
ld += bytes([0x20 | 0x10]) + ident(b'B')
ld += bytes([0x70]) + bytes([0, 0]) + ident(b'O')
ld += bytes([0x00])                                              # ABSATR for A
ld += bytes([0x20 | 0x01]) + ident(b'v')
e = EFLR.ExplicitlyFormattedLogicalRecord(3, File.LogicalData(ld))
print('C03 abs', [ (a.label, a.value) if a is not None else None for a in e.objects[0].attrs])
