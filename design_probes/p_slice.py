from typing import Optional, List
from TotalDepth.common import Slice

def slice_matches_builtin(start: Optional[int], stop: Optional[int], step: Optional[int], n: int) -> bool:
    """
    pre: 0 <= n <= 6
    pre: start is None or -7 <= start <= 7
    pre: stop is None or -7 <= stop <= 7
    pre: step is None or 1 <= step <= 7
    post: _
    """
    s = Slice.Slice(start, stop, step)
    ref = list(range(n))[slice(start, stop, step)]
    got = s.indices(n)
    if got != ref:
        return False
    if s.count(n) != len(ref):
        return False
    if list(s.gen_indices(n)) != ref:
        return False
    if ref and s.first(n) != ref[0]:
        return False
    return True

def sample_props(size: int, n: int) -> bool:
    """
    pre: 1 <= size <= 8
    pre: 0 <= n <= 12
    post: _
    """
    s = Slice.Sample(size)
    idx = s.indices(n)
    if len(idx) != min(size, n): return False
    if s.count(n) != len(idx): return False
    if idx and idx[0] != 0: return False
    for a, b in zip(idx, idx[1:]):
        if not a < b: return False
    if any(i >= n for i in idx): return False
    gaps = [b - a for a, b in zip(idx, idx[1:])]
    if gaps and max(gaps) - min(gaps) > 1: return False
    return True
