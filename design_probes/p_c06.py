import logging; logging.disable(logging.CRITICAL)
from TotalDepth.LIS.core import LogPass as LP, Type01Plan, Mnem

class Ebs:
    def __init__(self, indirect):
        self.recordingMode = 1 if indirect else 0
        self.depthRepCode = 73; self.depthUnits = b'.1IN'; self.dataType = 0
        self.absentValue = -999.25; self.frameSpacing = 60; self.frameSpacingUnits = b'.1IN'; self.upDown = 1
class Dsb:
    def __init__(self, i, size):
        self.size = size; self.subChannels = 1; self.units = b'    '; self.mnem = bytes([65 + i]) + b'   '; self.repCode = 66
    def subChMnem(self, sc): return self.mnem
class Dfsr:
    def __init__(self, sizes, indirect):
        self.ebs = Ebs(indirect); self.dsbBlocks = [Dsb(i, s) for i, s in enumerate(sizes)]

class StubFrameSet:
    """Recording stand-in for FrameSet.FrameSet (numpy storage replaced by lists)."""
    last = None
    def __init__(self, dfsr, frSl, chS, xAxisIndex):
        self._n = len(range(frSl.start or 0, frSl.stop, frSl.step or 1))
        self._chs = list(range(len(dfsr.dsbBlocks))) if chS is None else sorted(set(chS))
        self._x = [None] * self._n
        self.writes = []   # (frame, chFrom, chTo, bytes)
        self._spacing = -60
        self.isIndirectX = dfsr.ebs.recordingMode == 1
        StubFrameSet.last = self
    @property
    def numFrames(self): return self._n
    def genExtChIndexes(self): return iter(self._chs)
    def xAxisValue(self, fr): return self._x[fr]
    def xAxisStep(self, n): return n * self._spacing
    def setIndirectX(self, fr, v): self._x[fr] = v
    def setFrameBytes(self, by, fr, chFrom, chTo):
        if chFrom is None:
            self._x[fr] = by[0]      # model: first element of the record is its X value
            by = by[1:]; chFrom = 0
        if chTo is not None:
            self.writes.append((fr, chFrom, chTo, list(by)))
LP.FrameSet.FrameSet = StubFrameSet

class RecFile:
    """Record-level LIS file model: records[i] = [hdr0, hdr1, (X,) payload...]; element granularity = bytes, X is one 'element' of size 4."""
    def __init__(self, recs, xs, indirect):
        self.fileId = 'f'; self.recs = recs; self.xs = xs; self.ind = indirect; self.cur = None; self.pos = 0; self.touched = []
    def seekLr(self, tell):
        self.cur = tell; self.pos = 0
    def readLrBytes(self, n):
        if self.pos == 0 and n == 2:
            self.pos = 2; return bytes([0, 0])
        out = []
        if self.ind and self.pos == 2:
            out.append(self.xs[self.cur]); self.pos += 4; n -= 4
        st = self.pos - (6 if self.ind else 2)
        out.extend(self.recs[self.cur][st:st + n]); self.pos += n
        self.touched.append(self.cur)
        return out
    def skipLrBytes(self, n):
        self.pos += n; return n

def check(s0: int, s1: int, nfr: int, start: int, stop: int, step: int, indirect: bool) -> bool:
    """
    pre: 1 <= s0 <= 2 and 1 <= s1 <= 2
    pre: 2 <= nfr <= 3
    pre: 0 <= start < stop <= 3 * nfr
    pre: 1 <= step <= 3
    post: _
    """
    sizes = [s0, s1]; fsz = s0 + s1
    lp = LP.LogPass(Dfsr(sizes, indirect), 'f')
    recs = {}; xs = {}
    g = 0
    for r in range(3):
        tell = 100 * (r + 1)
        recs[tell] = [(g + f) * 10 + b for f in range(nfr) for b in range(fsz)]
        xs[tell] = 1000 - 60 * g
        lp._rle.add(tell, nfr, xs[tell])
        g += nfr
    f = RecFile(recs, xs, indirect)
    lp.setFrameSet(f, slice(start, stop, step), None)
    fs = StubFrameSet.last
    sel = list(range(start, stop, step))
    got = {}
    for fr, c0, c1, by in fs.writes:
        got.setdefault(fr, []).extend(by)
    for i, gfr in enumerate(sel):
        if got.get(i) != [gfr * 10 + b for b in range(fsz)]:
            return False
        if indirect and fs._x[i] != 1000 - 60 * gfr:
            return False
    return True
