"""C14 CrossHair harness: DAT mud-log files parse to their declared channels and values; inconsistent files are rejected."""
import datetime
import io
import logging
import os
logging.disable(logging.CRITICAL)
PART = int(os.environ.get('VERIF_PART', '-1'))
from engine import mark
from TotalDepth.DAT import DAT_parser

DECLS = [('UTIM', 'Unix Time', 'sec'), ('DATE', 'Date', 'ddmmyy'), ('TIME', 'Time', 'hhmmss'),
         ('WAC', 'Wits Activity Code', 'unitless'), ('BDIA', 'Bit  Diameter', 'inch'), ('C1', 'Methane (C1)', 'ppm'),
         # ordinary numeric channels that merely share the units text of the three date / time columns
         ('LAGT', 'Lag Time', 'sec'), ('DCOD', 'Day Code', 'ddmmyy'), ('TCOD', 'Tour Code', 'hhmmss')]
PERMS = [(0, 1, 2, 3, 4, 5, 6, 7, 8), (8, 7, 6, 5, 4, 3, 2, 1, 0), (3, 0, 7, 4, 1, 8, 5, 2, 6), (6, 2, 5, 8, 1, 4, 7, 0, 3)]
HEADERS = [('WAC',), ('WAC', 'BDIA', 'C1'), ('C1', 'LAGT', 'WAC'), ('TCOD', 'DCOD')]
YEARS = [0, 6, 9, 50, 51, 99]
MONTHS = ['Jan', 'Feb', 'Mar', 'Apr', 'May', 'Jun', 'Jul', 'Aug', 'Sep', 'Oct', 'Nov', 'Dec']
VALUES = ['0', '8.50', '-1.25e3', '12']


def _text(perm, hdr, nrows, tab, style_b, yy, mon, corrupt, where):
    sep = '\t' if tab else ' '
    lines = []
    for i in PERMS[perm]:
        n, d, u = DECLS[i]
        lines.append('%s %s %s' % (n, d, u))
    names = ['UTIM', 'DATE', 'TIME'] + list(HEADERS[hdr])
    if corrupt == 3:
        names = names + ['NOPE']                    # an undeclared channel on the header line
    if corrupt == 4:
        lines.insert(where % (len(lines) + 1), 'this is not a declaration!')
    lines.append(sep.join(names))
    model = []
    for r in range(nrows):
        ut = 1165665017 + 3600 * r
        day = 9 + r
        # the year may be written without a leading zero (5Oct9 = 5 October 2009): done for the odd months
        ytxt = ('%d' if mon % 2 == 1 else '%02d') % YEARS[yy]
        date = ('%d-%s-%s' % (day, MONTHS[mon], ytxt)) if style_b else ('%02d%s%s' % (day, MONTHS[mon], ytxt))
        tm = '11-%02d-17' % (50 + r)
        vals = [str(ut), date, tm] + [VALUES[(r + k) % len(VALUES)] for k in range(len(HEADERS[hdr]))]
        year = YEARS[yy] + (1900 if YEARS[yy] > 50 else 2000)
        row = [datetime.datetime(2006, 12, 9, 11 + r, 50, 17), datetime.date(year, mon + 1, day), datetime.time(11, 50 + r, 17)] + \
              [float(v) for v in vals[3:]]
        if corrupt == 1 and r == where % nrows:
            vals = vals[:-1]                         # a data line with a value missing
        if corrupt == 2 and r == where % nrows:
            vals = vals + ['7']                      # a data line with a value too many
        if corrupt == 5 and r == where % nrows:
            vals[-1] = vals[-1] + 'in'               # the right number of values, one of them not a number
        if corrupt == 6 and r == where % nrows:
            vals[1] = '99Xyz06'                      # the right number of values, the date not a date
        lines.append(sep.join(vals))
        model.append(row)
    return '\n'.join(lines) + '\n', names, model


TZS = ['UTC0', 'IST-5:30', 'PST8']       # POSIX time zone strings (no zone database needed): the Unix time column is UTC wherever the program runs


def _dat(perm, hdr, nrows, tab, style_b, yy, mon, corrupt, where, eol=0):
    import time
    old = os.environ.get('TZ')
    os.environ['TZ'] = TZS[(perm + hdr + nrows) % 3]
    time.tzset()
    try:
        return _dat_tz(perm, hdr, nrows, tab, style_b, yy, mon, corrupt, where, eol)
    finally:
        if old is None:
            os.environ.pop('TZ', None)
        else:
            os.environ['TZ'] = old
        time.tzset()


def _dat_tz(perm, hdr, nrows, tab, style_b, yy, mon, corrupt, where, eol=0):
    text, names, model = _text(perm, hdr, nrows, tab, style_b, yy, mon, corrupt, where)
    # line ends: 0 LF, 1 LF without a final line end, 2 CRLF, 3 CRLF without a final line end
    if eol & 1:
        text = text[:-1]
    if eol & 2:
        text = text.replace('\n', '\r\n')
    mark.hit()
    bad = corrupt in (3, 4) or (corrupt in (1, 2, 5, 6) and nrows > 0)
    try:
        fa = DAT_parser.parse_file(io.StringIO(text), 'id')
    except DAT_parser.ExceptionDAT:
        # rejected with the DAT error; the probe (which looks no further than the first data row) answers rather than raising, and
        # answers 'no' when the fault lies in the declarations, the header line or the first data row
        if not bad:
            return False
        try:
            can = DAT_parser.can_parse_file(io.StringIO(text))
        except Exception:
            return False
        early = corrupt in (3, 4) or where % nrows == 0
        return can is False if early else can in (False, True)
    if bad:
        return False
    can = DAT_parser.can_parse_file(io.StringIO(text))
    if can != (nrows >= 1):
        return False
    # one file object serves several calls (probe, parse, parse again; a caller may have read from it before): same answer every time
    fobj = io.StringIO(text)
    fobj.readline()
    if DAT_parser.can_parse_file(fobj) != can:
        return False
    for _again in range(2):
        fb = DAT_parser.parse_file(fobj, 'id')
        if [c.ident for c in fb.channels] != [c.ident for c in fa.channels] or any(len(c.array) != nrows for c in fb.channels):
            return False
        for r in range(nrows):
            for ci, c in enumerate(fb.channels):
                if c.array[r][0] != fa.channels[ci].array[r][0]:
                    return False
    decl = {n: (' '.join(d.split()), u) for n, d, u in DECLS}
    if [c.ident for c in fa.channels] != names:
        return False
    for c in fa.channels:
        if (c.long_name, c.units) != decl[c.ident]:
            return False
        if len(c.array) != nrows:
            return False
    for r in range(nrows):
        for ci, c in enumerate(fa.channels):
            if c.array[r][0] != model[r][ci]:
                return False
            if ci >= 3 and not isinstance(float(c.array[r][0]), float):
                return False
    return True


def dat_files(perm: int, hdr: int, nrows: int, tab: bool, style_b: bool, yy: int, mon: int, corrupt: int, where: int, eol: int = 0) -> bool:
    """
    pre: 0 <= perm <= 3 and 0 <= hdr <= 3 and 0 <= nrows <= 2
    pre: 0 <= yy <= 5 and mon in (0, 1, 5, 11) and 0 <= corrupt <= 6 and 0 <= where <= 3
    pre: corrupt == 0 or eol <= 1
    pre: corrupt != 0 or where == 0
    pre: 0 <= eol <= 3
    pre: PART < 0 or corrupt * 4 + perm == PART
    post: _
    """
    perm, hdr, nrows, yy, mon = mark.pick(perm, 0, 3), mark.pick(hdr, 0, 3), mark.pick(nrows, 0, 2), mark.pick(yy, 0, 5), mark.pick(mon, 0, 11)
    corrupt, where, tab, style_b = mark.pick(corrupt, 0, 6), mark.pick(where, 0, 3), mark.pickb(tab), mark.pickb(style_b)
    eol = mark.pick(eol, 0, 3)
    with mark.untraced():
        return _dat(perm, hdr, nrows, tab, style_b, yy, mon, corrupt, where, eol)


def dat_files_q(perm: int, hdr: int, nrows: int, tab: bool, style_b: bool, yy: int, mon: int, corrupt: int, where: int, eol: int = 0) -> bool:
    """
    pre: 0 <= perm <= 3 and 0 <= hdr <= 3 and 0 <= nrows <= 2
    pre: 0 <= yy <= 5 and mon in (0, 1, 11) and 0 <= corrupt <= 6 and 0 <= where <= 1
    pre: corrupt != 0 or where == 0
    pre: corrupt == 0 or (yy == 1 and mon == 11)
    pre: 0 <= eol <= 3 and (corrupt == 0 or eol <= 1)
    pre: PART < 0 or corrupt * 4 + perm == PART
    post: _
    """
    perm, hdr, nrows, yy, mon = mark.pick(perm, 0, 3), mark.pick(hdr, 0, 3), mark.pick(nrows, 0, 2), mark.pick(yy, 0, 5), mark.pick_from(mon, (0, 1, 11))
    corrupt, where, tab, style_b = mark.pick(corrupt, 0, 6), mark.pick(where, 0, 1), mark.pickb(tab), mark.pickb(style_b)
    eol = mark.pick(eol, 0, 3)
    with mark.untraced():
        return _dat(perm, hdr, nrows, tab, style_b, yy, mon, corrupt, where, eol)
