"""C08 CrossHair harnesses: LIS tables and data format specifications survive encode -> decode."""
import io
import logging
import os
logging.disable(logging.CRITICAL)
PART = int(os.environ.get('VERIF_PART', '-1'))
from engine import mark
from spec import lis_lr_ref as L
from TotalDepth.LIS.core import LogiRec, File, RepCode

ROWNAMES = [b'BS  ', b'DFD ', b'MATR', 0, 1, -1, 300]      # row names are the first cell of each row: text or (legal, rarer) numbers
CELLS = [b'', b'A', b'ABC ', 0, 255, 256, -1, -32768, 32767, 32768, -32769, 2147483647, -2147483648, 0.5, -153.0, 8.5]


def _file_of(lr_bytes, split):
    data, pos = L.physical([lr_bytes], False, 20 if split else None)
    return File.FileRead(io.BytesIO(data), 'id', False)


def _table(nrows, n0, n1, n2, ncols, c0, c1, c2, u, split):
    names = [ROWNAMES[n0], ROWNAMES[n1], ROWNAMES[n2]][:nrows]
    cells = [c0, c1, c2]
    mnems = [b'MNEM', b'VALU', b'PUNI'][:1 + ncols]
    if any(isinstance(n, int) for n in names):
        mnems[0] = b'INDX'        # numeric row names: the first column is then not a mnemonic column
    table = []
    k = 0
    for r in range(nrows):
        row = [names[r]]
        for c in range(ncols):
            v = CELLS[(cells[k % 3] + r * 5 + c) % len(CELLS)]
            k += 1
            row.append((v, b'IN  ') if (u and c == 0) else v)
        table.append(row)
    w = LogiRec.LrTableWrite(34, b'CONS', mnems, table)
    raw = bytes([34, 0]) + b''.join(w.genLisBytes())
    t = LogiRec.LrTableRead(_file_of(raw, split))
    mark.hit()
    if t.type != 34 or t.value != b'CONS':
        return False
    # expected rows: first of duplicate names kept, order kept
    exp = []
    seen = set()
    for row in table:
        if row[0] in seen:
            continue
        seen.add(row[0])
        exp.append(row)
    if len(t) != len(exp) or [r.value for r in t.genRows()] != [r[0] for r in exp]:
        return False
    if list(t.colLabels()) != (mnems if exp else []):
        return False
    for r, row in zip(t.genRows(), exp):
        if len(r) != len(row):
            return False
        for ci, v in enumerate(row):
            cb = r[ci]
            units = b'    '
            if isinstance(v, (tuple, list)):
                v, units = v
            if cb.mnem != mnems[ci] or cb.units != units:
                return False
            if isinstance(v, float):
                if cb.rc != 68 or abs(cb.value - v) > abs(v) * 2.0 ** -22:
                    return False
            elif isinstance(v, bytes):
                # an empty text cell reads back as 'no value' (None): equivalent
                if cb.rc != 65 or (cb.value != v and not (v == b'' and cb.value is None)) or cb.size != len(v):
                    return False
            else:
                want_rc = 66 if 0 <= v <= 255 else 79 if -32768 <= v <= 32767 else 73
                if cb.rc != want_rc or cb.value != v or cb.size != RepCode.lisSize(want_rc):
                    return False
        if r[0].type != 0 or any(r[i].type != 69 for i in range(1, len(row))):
            return False
    return True


def table_roundtrip_q(nrows: int, n1: int, n2: int, ncols: int, c0: int, u: bool, split: bool, n0: int = 0) -> bool:
    """
    pre: 0 <= nrows <= 3 and n1 in (0, 1, 3, 4) and n2 in (0, 2, 3, 4, 5) and 0 <= ncols <= 2
    pre: 0 <= c0 <= 15 and 0 <= n0 <= 1
    pre: PART < 0 or nrows * 4 + (2 if u else 0) + (1 if split else 0) == PART
    post: _
    """
    nrows, n1, n2, ncols = mark.pick(nrows, 0, 3), mark.pick_from(n1, (0, 1, 3, 4)), mark.pick_from(n2, (0, 2, 3, 4, 5)), mark.pick(ncols, 0, 2)
    c0, u, split, n0 = mark.pick(c0, 0, 15), mark.pickb(u), mark.pickb(split), mark.pick(n0, 0, 1)
    with mark.untraced():
        return _table(nrows, n0 * 4, n1, n2, ncols, c0, 6, 13, u, split)


def table_roundtrip(nrows: int, n0: int, n1: int, n2: int, ncols: int, c0: int, c1: int, c2: int, u: bool, split: bool) -> bool:
    """
    pre: 0 <= nrows <= 3 and 0 <= n0 <= 6 and 0 <= n1 <= 6 and 0 <= n2 <= 6 and 0 <= ncols <= 2
    pre: 0 <= c0 <= 15 and c1 in (1, 6, 11) and c2 in (0, 13) and (nrows <= 2 or c0 % 2 == 0)
    pre: (nrows >= 1 or n0 == 0) and (nrows >= 2 or n1 == 0) and (nrows >= 3 or n2 == 0) and (nrows >= 1 or (c0 == 0 and c1 == 1 and c2 == 0))
    pre: nrows <= 2 or (c1 == 6 and c2 == 13)
    pre: PART < 0 or nrows * 4 + (2 if u else 0) + (1 if split else 0) == PART
    post: _
    """
    nrows, ncols = mark.pick(nrows, 0, 3), mark.pick(ncols, 0, 2)
    n0 = mark.pick(n0, 0, 6) if nrows >= 1 else 0
    n1 = mark.pick(n1, 0, 6) if nrows >= 2 else 0
    n2 = mark.pick(n2, 0, 6) if nrows >= 3 else 0
    c0 = mark.pick(c0, 0, 15) if nrows >= 1 else 0
    c1 = (mark.pick_from(c1, (1, 6, 11)) if nrows <= 2 else 6) if nrows >= 1 else 1
    c2 = (mark.pick_from(c2, (0, 13)) if nrows <= 2 else 13) if nrows >= 1 else 0
    u, split = mark.pickb(u), mark.pickb(split)
    with mark.untraced():
        return _table(nrows, n0, n1, n2, ncols, c0, c1, c2, u, split)


CHS = [(b'DEPT', b'FEET', 4, 1, 68), (b'GR  ', b'GAPI', 4, 1, 68), (b'SP  ', b'MV  ', 2, 1, 79), (b'WF  ', b'    ', 8, 2, 79), (b'ID  ', b'    ', 1, 1, 66), (b'CNT ', b'    ', 12, 3, 73)]
EBS = {1: (66, [0, 1]), 4: (66, [1, 255, 0]), 5: (66, [1, 255, 0]), 8: (73, [60, -60]), 9: (65, [b'.1IN', b'FEET']), 11: (66, [64]), 12: (68, [-999.25, 0.0]),
       13: (66, [0, 1]), 14: (65, [b'.1IN', b'M   ']), 15: (66, [73, 68]), 3: (79, [16, -2]), 6: (68, [0.5]), 7: (65, [b'FEET'])}
EB_ORDER = [1, 3, 4, 5, 6, 7, 8, 9, 11, 12, 13, 14, 15]
EMPTY_OK = (3, 7, 9, 12, 14)


def _dfsr(mask, vsel, nch, c0, split):
    ebs = LogiRec.EntryBlockSet()
    model = {}
    for bit, t in enumerate(EB_ORDER):
        if mask & (1 << bit):
            rc, vals = EBS[t]
            v = vals[vsel % len(vals)]
            size = len(v) if isinstance(v, bytes) else RepCode.lisSize(rc)
            if vsel == 2 and t in EMPTY_OK:
                # the block is written, but empty (size 0, no value): it reads back empty, not as the default of its type
                size, v = 0, None
            ebs.setEntryBlock(LogiRec.EntryBlock(t, size, rc, v))
            model[t] = (size, rc, v)
    raw_ebs = ebs.lisBytes()
    if len(raw_ebs) % 2:
        return False
    chans = [CHS[(c0 + i) % len(CHS)] for i in range(nch)]
    raw = bytes([64, 0]) + raw_ebs + b''.join(L.dsb(*c) for c in chans)
    d = LogiRec.LrDFSRRead(_file_of(raw, split))
    mark.hit()
    defaults = LogiRec.EntryBlockSet()
    for t in range(1, 17):
        if t == 10:
            continue
        got = d.ebs[t]
        if t in model:
            size, rc, v = model[t]
            if got.type != t or got.size != size or got.repCode != rc:
                return False
            if isinstance(v, float):
                if abs(got.value - v) > abs(v) * 2.0 ** -22:
                    return False
            elif got.value != v:
                return False
        else:
            if (got.size, got.repCode, got.value) != (defaults[t].size, defaults[t].repCode, defaults[t].value):
                return False
    if len(d.dsbBlocks) != nch:
        return False
    for b, (m, u, size, samples, rc) in zip(d.dsbBlocks, chans):
        if (b.mnem, b.units, b.size, b.samples(0), b.repCode) != (m, u, size, samples, rc):
            return False
        if b.subChannels != 1 or b.bursts(0) != size // (RepCode.lisSize(rc) * samples) or b.values() != samples * b.bursts(0):
            return False
    if d.frameSize() != sum(c[2] for c in chans):
        return False
    return True


def dfsr_roundtrip(mask: int, vsel: int, nch: int, c0: int, split: bool) -> bool:
    """
    pre: 0 <= mask < 8192 and 0 <= vsel <= 2 and nch in (1, 3) and c0 in (0, 3, 5)
    pre: PART < 0 or (mask // 512) == PART
    post: _
    """
    # the 13 optional entry blocks are independent bits of a symbolic mask
    bits = [mark.pickb((mask >> k) % 2 == 1) for k in range(13)]
    m = 0
    for k, b in enumerate(bits):
        if b:
            m += 1 << k
    vsel, nch, c0, split = mark.pick(vsel, 0, 2), mark.pick(nch, 1, 3), mark.pick_from(c0, (0, 3, 5)), mark.pickb(split)
    with mark.untraced():
        return _dfsr(m, vsel, nch, c0, split)


def dfsr_roundtrip_q(mask: int, vsel: int, nch: int, c0: int, split: bool) -> bool:
    """
    pre: 0 <= mask < 8192 and 0 <= vsel <= 2 and 1 <= nch <= 2 and c0 in (0, 3)
    pre: (mask // 64) % 8 in (0, 7) and mask // 512 in (0, 5, 15)
    pre: PART < 0 or (mask % 16) == PART
    post: _
    """
    bits = [mark.pickb((mask >> k) % 2 == 1) for k in range(13)]
    m = 0
    for k, b in enumerate(bits):
        if b:
            m += 1 << k
    vsel, nch, c0, split = mark.pick(vsel, 0, 2), mark.pick(nch, 1, 2), mark.pick_from(c0, (0, 3)), mark.pickb(split)
    with mark.untraced():
        return _dfsr(m, vsel, nch, c0, split)
