"""C18 CrossHair harness: the HTML summary of an RP66V1 file (ScanHTML.html_scan_RP66V1_file_data_content, the whole document) is well-formed
whatever markup characters the file's set types, object names, labels, units and values contain, and carries them unchanged: the table of
contents, the heading and the table of every EFLR, and the frame array summary."""
import io
import logging
import os
import shutil
import struct
import tempfile
logging.disable(logging.CRITICAL)
PART = int(os.environ.get('VERIF_PART', '-1'))
import xml.etree.ElementTree as ET
from engine import mark
from spec import rp66_file_ref as F
from spec import rp66_eflr_ref as E
from TotalDepth.common import Slice

# identifiers and texts with markup characters and quotes (IDENT may hold any printable ASCII character)
SPICE = [b'PLAIN', b'A<B', b'R&D"X"', b"<b>'q'</b>", b'a]]>b', b'&#60;x&amp;']
XHTML = '{http://www.w3.org/1999/xhtml}'
FDOUBL = 7


def _parse(text):
    # the document may use the XHTML entity &nbsp; (declared by the XHTML DTD it names): mapped to U+00A0 for the stand-alone parser
    p = ET.XMLParser()
    p.entity['nbsp'] = ' '
    p.feed(text)
    return p.close()


def _text(e):
    return ''.join(e.itertext()).replace(' ', ' ')


def _scan(st, sv, su, nframes, vr_each, sort_eflr, second):
    from TotalDepth.RP66V1 import ScanHTML
    set_type = b'TOOL-' + SPICE[st]
    chans = [(b'DEPT', FDOUBL, b'm', [1]), (b'G' + SPICE[st], E.USHORT, SPICE[su][:6], [1])]
    recs = [F.record(True, 0, F.file_header(1), new_vr=vr_each), F.record(True, 1, F.origin(), new_vr=vr_each),
            F.record(True, 5, F.eflr(set_type, [(b'LONG-NAME', F.ASCII), (b'L-' + SPICE[sv], E.UNORM)],
                                     [((2, 0, b'O' + SPICE[sv]), [[b'value ' + SPICE[sv]], [300, 301]]), ((2, 0, b'P1'), [[b'x'], [7]])]), new_vr=vr_each),
            F.record(True, 3, F.channel(chans), new_vr=vr_each),
            F.record(True, 4, F.frame([(b'F' + SPICE[st], [c[0] for c in chans])]), new_vr=vr_each)]
    for n in range(1, nframes + 1):
        recs.append(F.record(False, 0, F.iflr(b'F' + SPICE[st], n, struct.pack('>d', 1000.0 + 0.5 * n) + bytes([n])), new_vr=vr_each))
    if second:
        recs += [F.record(True, 0, F.file_header(2), new_vr=True), F.record(True, 1, F.origin(b'SECOND <&>'))]
    data, layout = F.build(recs)
    tmp = tempfile.mkdtemp(prefix='verif_c18s_')
    try:
        path = os.path.join(tmp, 'in.dlis')
        with open(path, 'wb') as f:
            f.write(data)
        out = io.StringIO()
        ScanHTML.html_scan_RP66V1_file_data_content(path, out, False, Slice.Slice(), sort_eflr)
        mark.hit()
        try:
            root = _parse(out.getvalue())
        except ET.ParseError:
            return False
        body = root.find(XHTML + 'body')
        if body is None:
            return False
        texts = [_text(e) for e in body.iter() if e.tag in (XHTML + 'h3', XHTML + 'h2', XHTML + 'h1', XHTML + 'a', XHTML + 'td', XHTML + 'th', XHTML + 'p', XHTML + 'li')]
        joined = '\n'.join(texts)
        # every string of the file appears, unchanged, in a heading, link or table cell of the document
        want = [set_type, b'L-' + SPICE[sv], b'O' + SPICE[sv], b'value ' + SPICE[sv], b'G' + SPICE[st], b'F' + SPICE[st], b'LONG-NAME', b'P1', b'FILE-HEADER', b'ORIGIN', b'CHANNEL', b'FRAME']
        if SPICE[su][:6]:
            want.append(SPICE[su][:6])
        if second:
            want.append(b'SECOND <&>')
        for w in want:
            if w.decode('ascii') not in joined:
                return False
        # the heading of the table names its set type and its shape; the numbers of its cells are listed
        heads = [_text(e) for e in body.iter(XHTML + 'h3')]
        if not any(set_type.decode('ascii') in h and '(2, 2)' in h for h in heads):
            return False
        cells = [_text(e) for e in body.iter(XHTML + 'td')]
        if not any('300' in c and '301' in c for c in cells):
            return False
        return True
    finally:
        shutil.rmtree(tmp, ignore_errors=True)


def scan_html(st: int, sv: int, su: int, nframes: int, vr_each: bool, sort_eflr: bool, second: bool) -> bool:
    """
    pre: 0 <= st <= 5 and 0 <= sv <= 5 and 0 <= su <= 5 and 0 <= nframes <= 3
    pre: PART < 0 or st == PART
    post: _
    """
    st, sv, su, nframes = mark.pick(st, 0, 5), mark.pick(sv, 0, 5), mark.pick(su, 0, 5), mark.pick(nframes, 0, 3)
    vr_each, sort_eflr, second = mark.pickb(vr_each), mark.pickb(sort_eflr), mark.pickb(second)
    with mark.untraced():
        return _scan(st, sv, su, nframes, vr_each, sort_eflr, second)
