"""C18 CrossHair harness: the HTML summary of a LAS file (LASToHTML.las_file_to_html, the whole document) is well-formed and carries, per header
section, one table row per line of the file - mnemonic, units, value and description unchanged, repeated mnemonics included - and one row
per curve of the array section; markup characters of the file never break the document."""
import logging
import os
import shutil
import tempfile
logging.disable(logging.CRITICAL)
PART = int(os.environ.get('VERIF_PART', '-1'))
import xml.etree.ElementTree as ET
from engine import mark
from spec import las_ref as L

# strings with markup characters and quotes (C0 control bytes are the listed finding xml_c0_controls of the shared writer: not repeated here)
SPICE = ['PLAIN', 'A<B', 'R&D "X"', "<b>'q'</b> &amp;", 'a]]>b', '&#60;!-- x -->']
WELL = [('STRT', 'M', '1670.0', 'START DEPTH'), ('STOP', 'M', '1669.75', 'STOP DEPTH'), ('STEP', 'M', '-0.125', 'STEP'),
        ('NULL', '', '-999.25', 'NULL VALUE')]
CURVES = [('DEPT', 'M', '1  DEPTH'), ('GR', 'GAPI', '2  GAMMA RAY'), ('NPHI', 'V/V', '3  NEUTRON POROSITY'), ('ILD', 'OHM.M', '4  DEEP INDUCTION')]
XHTML = '{http://www.w3.org/1999/xhtml}'


def _content(ncurves, nframes, sp_val, sp_desc, dup, params):
    well = WELL + [('COMP', '', SPICE[sp_val], 'COMPANY ' + SPICE[sp_desc]), ('RUN', '', '2', 'RUN NUMBER')]
    prm = [('BHT', 'DEGC', '35.5', 'BOTTOM HOLE TEMPERATURE'), ('RUN', '', '1', 'FIRST ' + SPICE[sp_desc]), ('MUD', '', SPICE[sp_val], 'MUD TYPE')]
    if dup == 1:
        prm.append(('RUN', '', '2', 'A REPEATED MNEMONIC'))          # accepted by the reader (with a warning): every line is kept
    elif dup == 2:
        prm.insert(0, ('MUD', 'K', '7', 'REPEATED BEFORE'))
        prm.append(('BHT', 'DEGF', '95.9', 'REPEATED LAST'))
    curves = [(m, u, d if i != 1 else d + ' ' + SPICE[sp_desc]) for i, (m, u, d) in enumerate(CURVES[:ncurves])]
    frames = [['%.3f' % (1670.0 - 0.125 * f)] + ['%d.5' % (10 * c + f) for c in range(1, ncurves)] for f in range(nframes)]
    return dict(vers=2.0, well=well, curves=curves, params=prm if params else None, frames=frames)


def _text(e):
    return ''.join(e.itertext())


def _rows(table):
    return [[_text(c) for c in tr] for tr in table.findall(XHTML + 'tr')]


def _clean(s):
    """what a reader of the HTML can be asked to recover: characters XML cannot represent are outside the claim (they must only not break the document)"""
    return ''.join(c for c in s if c in '\t\n\r' or ord(c) >= 0x20)


def _html(ncurves, nframes, sp_val, sp_desc, dup, params, wrap):
    from TotalDepth.LAS import LASToHTML
    from TotalDepth.common import Slice
    content = _content(ncurves, nframes, sp_val, sp_desc, dup, params)
    lay = dict(wrap=wrap, lead=0, sep=2, comments=False, blanks=False, per_line=2, colon_pad=1)
    tmp = tempfile.mkdtemp(prefix='verif_c18l_')
    try:
        src, dst = os.path.join(tmp, 'in.las'), os.path.join(tmp, 'out.html')
        with open(src, 'w', encoding='ascii') as f:
            f.write(L.render(content, lay))
        res = LASToHTML.las_file_to_html(src, dst, 'LAS2.0', False, False, Slice.Slice())
        mark.hit()
        with open(dst, 'rb') as f:
            doc = f.read()
        try:
            root = ET.fromstring(doc)
        except ET.ParseError:
            return False
        body = root.find(XHTML + 'body')
        if body is None:
            return False
        # the tables of the body in document order, each keyed by the section anchor that precedes it
        tables = {}
        anchor = None
        for e in body:
            if e.tag == XHTML + 'a' and e.get('name') is not None:
                anchor = e.get('name')
            elif e.tag == XHTML + 'table' and anchor is not None:
                tables.setdefault(anchor, []).append(e)
        want = {'V': [('VERS', '', '2.0', 'CWLS LOG ASCII STANDARD -VERSION 2.0'),
                      ('WRAP', '', 'YES' if wrap else 'NO', 'Multiple lines per depth step' if wrap else 'One line per depth step')],
                'W': content['well'], 'C': [(m, u, '', d) for m, u, d in content['curves']]}
        if params:
            want['P'] = content['params']
        for sect, lines in want.items():
            if len(tables.get(sect, [])) != 1:
                return False
            rows = _rows(tables[sect][0])
            if rows[0] != ['Mnemonic', 'Units', 'Value', 'Description'] or len(rows) != len(lines) + 1:
                return False
            for row, (m, u, v, d) in zip(rows[1:], lines):
                tv = L.typed(v)
                if row != [m, u, _clean(str(tv)), _clean(d)]:
                    return False
        if not params and 'P' in tables:
            return False
        # array section: one row per curve, with its name, units, description and number of values
        if len(tables.get('A', [])) != 1:
            return False
        rows = _rows(tables['A'][0])
        if rows[0][:4] != ['Channel', 'Units', 'Long Name', 'Size']:
            return False
        # (a channel with fewer than two live values has no statistics and is not listed: np_summary.summarise_array)
        if len(rows) != (ncurves + 1 if nframes >= 2 else 1):
            return False
        for row, (m, u, d) in zip(rows[1:], content['curves']):
            ci = [c[0] for c in content['curves']].index(m)
            vals = [float(fr[ci]) for fr in content['frames']]
            if (row[0], row[1], row[3], row[4]) != (m, u, str(nframes), '0') or (row[5], row[9]) != ('%.3f' % min(vals), '%.3f' % max(vals)):
                return False
        # the returned summary of the file
        if tuple(res.sections) != tuple(['V', 'W', 'C'] + (['P'] if params else []) + ['A']) or tuple(res.channels) != tuple(c[0] for c in content['curves']):
            return False
        if res.number_frames != nframes:
            return False
        return True
    finally:
        shutil.rmtree(tmp, ignore_errors=True)


def las_html_summary(ncurves: int, nframes: int, sp_val: int, sp_desc: int, dup: int, params: bool, wrap: bool) -> bool:
    """
    pre: 2 <= ncurves <= 4 and 1 <= nframes <= 3 and 0 <= sp_val <= 5 and 0 <= sp_desc <= 5 and 0 <= dup <= 2
    pre: params or dup == 0
    pre: PART < 0 or sp_val * 3 + dup == PART
    post: _
    """
    ncurves, nframes, sp_val, sp_desc, dup = mark.pick(ncurves, 2, 4), mark.pick(nframes, 1, 3), mark.pick(sp_val, 0, 5), mark.pick(sp_desc, 0, 5), mark.pick(dup, 0, 2)
    params, wrap = mark.pickb(params), mark.pickb(wrap)
    with mark.untraced():
        return _html(ncurves, nframes, sp_val, sp_desc, dup, params, wrap)
