"""C10 CrossHair harness: a frame array written as LAS curve + data sections reads back as the same log."""
import io
import logging
import os
logging.disable(logging.CRITICAL)
PART = int(os.environ.get('VERIF_PART', '-1'))
from engine import mark
from TotalDepth.LAS.core import WriteLAS, LASRead
from TotalDepth.common import LogPass, Slice

VALS = [0.0, -1.0, 12345678.5, 0.0004, -999.25, 2.71875, -0.06, 1e-9]
NAMES = [('DEPT', '.1IN'), ('GR', 'gAPI'), ('CNT', ''), ('WAVE', 'OHM.M'), ('SPEC', 'cps')]        # units with dots are ordinary (LIS depth unit, resistivity)
# numeric channels that merely share the name of the LAS date / time curves (those are TIME.HHMMSS and DATE.D), also as the index channel
NAMESETS = [NAMES,
            [('DEPT', '.1IN'), ('TIME', 'S'), ('DATE', ''), ('WAVE', 'OHM.M'), ('SPEC', 'cps')],
            [('TIME', 'MS'), ('GR', 'gAPI'), ('CNT', 'H'), ('WAVE', 'OHM.M'), ('SPEC', 'cps')]]
IVALS = [[5, 6, 6, 6], [-5, -6, -6, -6], [1, 2, 3, 4], [7, 7, 7, 8], [-1, 0, 0, 2]]
UVALS = [[250, 251, 251, 251], [0, 0, 1, 1], [1, 2, 3, 4], [7, 7, 7, 8], [9, 200, 200, 202]]
HEAD = '~Version Information Section\nVERS. 2.0 : CWLS\nWRAP. NO : One line per depth step\n~Well Information Section\nNULL. -999.25 : NULL\n'


def _frame_array(nframes, v0, v1, only=None, names=NAMES):
    import numpy as np
    fa = LogPass.FrameArray('FA', 'description')
    fa.append(LogPass.FrameChannel(names[0][0], 'Depth', names[0][1], (1,), np.float64))
    fa.append(LogPass.FrameChannel(names[1][0], 'Gamma', names[1][1], (1,), np.float32))
    fa.append(LogPass.FrameChannel(names[2][0], 'Count', names[2][1], (1,), np.int32))
    fa.append(LogPass.FrameChannel(names[3][0], 'Waveform', names[3][1], (1, 2), np.float64))      # two values per frame, leading dimension 1
    fa.append(LogPass.FrameChannel(names[4][0], 'Spectrum counts', names[4][1], (4,), np.int16 if v0 % 2 == 0 else np.uint8))
    if only is None:
        fa.init_arrays(nframes)
    else:
        fa.init_arrays_partial(nframes, set(only))
    has = [len(c.array) == nframes and nframes > 0 for c in fa.channels]
    for f in range(nframes):
        if has[4]:
            for k in range(4):
                fa.channels[4].array[f, k] = (IVALS if v0 % 2 == 0 else UVALS)[(v0 // 2 + v1 + f) % 5][k]
        fa.channels[0][f] = 1000.0 - 0.5 * f
        if has[1]:
            fa.channels[1][f] = VALS[(v0 + f) % len(VALS)]
        if has[2]:
            fa.channels[2][f] = [7, -3, 123456789][(v1 + f) % 3]
        if has[3]:
            fa.channels[3].array[f, 0, 0] = VALS[(v1 + f) % len(VALS)]
            fa.channels[3].array[f, 0, 1] = VALS[(v0 + 2 * f + 1) % len(VALS)]
    return fa


def _reduce(vals, method):
    import numpy as np
    a = np.array(vals)
    return {'first': lambda: a[0], 'mean': lambda: a.mean(), 'median': lambda: np.median(a), 'min': lambda: a.min(), 'max': lambda: a.max()}[method]()


def write_read(nframes: int, m1: bool, m2: bool, m3: bool, bogus: bool, width: int, dec: int, red: int, v0: int, v1: int, m4: bool = False, incr: bool = False) -> bool:
    """
    pre: 1 <= nframes <= 2 and width in (4, 5, 7, 8, 12, 16) and dec in (1, 3, 4) and 0 <= red <= 4
    pre: 0 <= v0 <= 5 and v1 in (0, 3, 5, 6)
    pre: PART < 0 or (8 if m1 else 0) + (4 if m2 else 0) + (2 if m3 else 0) + (1 if bogus else 0) == PART
    post: _
    """
    nframes, width, dec, red = mark.pick(nframes, 1, 2), mark.pick_from(width, (4, 5, 7, 8, 12, 16)), mark.pick(dec, 1, 4), mark.pick(red, 0, 4)
    v0, v1 = mark.pick(v0, 0, 7), mark.pick_from(v1, (0, 3, 5, 6))
    m1, m2, m3, bogus, m4, incr = mark.pickb(m1), mark.pickb(m2), mark.pickb(m3), mark.pickb(bogus), mark.pickb(m4), mark.pickb(incr)
    with mark.untraced():
        return _write_read(nframes, m1, m2, m3, bogus, width, dec, red, v0, v1, m4, incr)


def write_read_q(nframes: int, m1: bool, m2: bool, m3: bool, bogus: bool, width: int, dec: int, red: int, v0: int, m4: bool = False, incr: bool = False) -> bool:
    """
    pre: 1 <= nframes <= 2 and width in (4, 8, 16) and dec in (1, 3) and 0 <= red <= 4
    pre: 0 <= v0 <= 7
    pre: PART < 0 or (8 if m1 else 0) + (4 if m2 else 0) + (2 if m3 else 0) + (1 if bogus else 0) == PART
    post: _
    """
    nframes, width, dec, red = mark.pick(nframes, 1, 2), mark.pick_from(width, (4, 8, 16)), mark.pick_from(dec, (1, 3)), mark.pick(red, 0, 4)
    v0 = mark.pick(v0, 0, 7)
    m1, m2, m3, bogus, m4, incr = mark.pickb(m1), mark.pickb(m2), mark.pickb(m3), mark.pickb(bogus), mark.pickb(m4), mark.pickb(incr)
    with mark.untraced():
        return _write_read(nframes, m1, m2, m3, bogus, width, dec, red, v0, (v0 * 3 + 1) % 8, m4, incr)


def _write_read(nframes, m1, m2, m3, bogus, width, dec, red, v0, v1, m4=False, incr=False):
    import numpy as np
    method = ['first', 'mean', 'median', 'min', 'max'][red]
    NAMES = NAMESETS[(v0 // 2 + red) % 3]
    fa = _frame_array(nframes, v0, v1, None, NAMES)
    subset = {n for (n, u), m in zip(NAMES[1:], (m1, m2, m3, m4)) if m}
    if bogus:
        subset.add('NOSUCH')
    src = fa
    if subset and v0 % 2 == 1:
        # the frame array was prepared for the channel subset only (init_arrays_partial, as the RP66V1 converter does): the channels that
        # were not asked for hold no data at all
        fa = _frame_array(nframes, v0, v1, subset, NAMES)
    out = io.StringIO()
    if incr:
        # the documented incremental use: the three writers are called one after the other, each with its own copy of the requested set
        WriteLAS.write_curve_section_to_las(fa, set(subset), out)
        WriteLAS.write_array_section_header_to_las(fa, nframes, method, Slice.Slice(), set(subset), width, out)
        WriteLAS.write_array_section_data_to_las(fa, method, set(subset), width, '.%df' % dec, out)
    else:
        WriteLAS.write_curve_and_array_section_to_las(fa, nframes, method, Slice.Slice(), set(subset), width, '.%df' % dec, out)
    text = out.getvalue()
    mark.hit()
    # the channels that must be listed: the first plus the requested ones (all when nothing is requested)
    want = [0] + [i for i in (1, 2, 3, 4) if (not subset) or NAMES[i][0] in subset]
    # curve section, column heading and data rows list the same channels (read straight from the text)
    lines = text.split('\n')
    ci = lines.index('~Curve Information Section')
    curve_names = []
    for l in lines[ci + 1:]:
        if l.startswith('~') or l.startswith('# Array'):
            break
        if l.startswith('#'):
            continue
        curve_names.append(l.split('.')[0].strip())
    ai = [i for i, l in enumerate(lines) if l.startswith('~A')][0]
    head_names = lines[ai][2:].split()
    rows = [l.split() for l in lines[ai + 1:] if l.strip()]
    exp_names = [NAMES[i][0] for i in want]
    if curve_names != exp_names or head_names != exp_names:
        return False
    if len(rows) != nframes or any(len(r) != len(want) for r in rows):
        return False
    # read back with the LAS reader
    las = LASRead.LASRead(io.StringIO(HEAD + text), 'id')
    fr = las.frame_array
    if [c.ident for c in fr.channels] != exp_names or [c.units for c in fr.channels] != [NAMES[i][1] for i in want]:
        return False
    if las.number_of_frames() != nframes:
        return False
    half = 0.5 * 10 ** -dec
    for col, i in enumerate(want):
        chan = src.channels[i]
        for f in range(nframes):
            sv = float(_reduce([float(x) for x in chan.array[f].flatten()], method))
            got = float(np.ma.getdata(fr.channels[col].array)[f][0])
            tol = 0.5 if i in (2, 4) else half      # integer channels are printed without decimals
            if abs(got - sv) > tol * (1 + 1e-9) + abs(sv) * 1e-12:
                return False
    return True
