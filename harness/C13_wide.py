"""C13 CrossHair harness: BIT files with many channels (up to the 20 the header's name table holds), run natively with the real numpy storage:
channel names in header order, frame count, channel-major de-interleave and X axis.  (The value of every 4-byte pattern is decided by the SMT
obligations; here the expected numbers come from the same decoder applied to the 4 bytes of each position.)"""
import io
import logging
import struct
logging.disable(logging.CRITICAL)
from engine import mark
from TotalDepth.BIT import ReadBIT

F_1000 = b'\x43\x3e\x80\x00'   # 1000.0
F_900 = b'\x43\x38\x40\x00'    # 900.0
F_1100 = b'\x43\x44\xc0\x00'   # 1100.0
F_HALF = b'\x40\x80\x00\x00'   # 0.5
F_ZERO = b'\x00\x00\x00\x00'
COUNTS = [1, 2, 10, 17, 19, 20]


def _name(i):
    return b'C%02d ' % i


def _first(nch, inc):
    b = b'\x00\x02\x00\x00' + b'D' * 72 + b'\x00\x0a\x00\x18\x00' + b'U' * 75 + b'\x00\x12\x00\x0b\x00\x06  '
    b = b + bytes([0, nch]) + b'\x00\x00'
    for i in range(20):
        b = b + (_name(i) if i < nch else b'    ')
    return b + F_1000 + (F_1100 if inc else F_900) + F_HALF + F_ZERO + F_ZERO + b'TAILTAIL'


def _val(k, c, j):
    return bytes([0x42, 0x10 + (k * 7 + j) % 64, (c * 11) % 256, (c * 4 + j) % 256])


def _file(nch, frames, inc, npass):
    out, prev, pos = b'', 0, 0
    for p in range(npass):
        blocks = [_first(nch, inc)] + [b''.join(_val(k, c, j) for c in range(nch) for j in range(nfr)) for k, nfr in enumerate(frames)]
        for pl in blocks:
            nxt = pos + 12 + len(pl)
            out += struct.pack('<3L', 0, prev, nxt) + pl
            prev, pos = pos, nxt
        nxt = pos + 12
        out += struct.pack('<3L', 1, prev, nxt)
        prev, pos = pos, nxt
    return out + struct.pack('<3L', 1, prev, pos + 12)


def _wide(ci, f0, f1, inc, npass):
    nch = COUNTS[ci]
    frames = [f0, f1][:2 if f1 else 1]
    data = _file(nch, frames, inc, npass)
    mark.hit()
    if not ReadBIT.is_bit_file(io.BytesIO(data)):
        return False
    got = ReadBIT.create_bit_frame_array_from_file(io.BytesIO(data))
    if len(got) != npass:
        return False
    tot = sum(frames)
    for bfa in got:
        if bfa.channel_names != [_name(i).decode('ascii') for i in range(nch)] or bfa.frame_count != tot:
            return False
        fa = bfa.frame_array
        if len(fa.channels) != nch + 1:
            return False
        for c in range(nch):
            ch = fa.channels[c + 1]
            want = [list(ReadBIT.gen_floats(_val(k, c, j)))[0] for k, nfr in enumerate(frames) for j in range(nfr)]
            if ch.ident != _name(c).decode('ascii') or [float(v) for v in ch.array.flatten()] != want:
                return False
        xs = [float(v) for v in fa.channels[0].array.flatten()]
        if xs != [1000.0 + (0.5 if inc else -0.5) * i for i in range(tot)]:
            return False
    return True


def bit_wide(ci: int, f0: int, f1: int, inc: bool, npass: int) -> bool:
    """
    pre: 0 <= ci <= 5 and 1 <= f0 <= 3 and 0 <= f1 <= 3 and 1 <= npass <= 2
    post: _
    """
    ci, f0, f1, inc, npass = mark.pick(ci, 0, 5), mark.pick(f0, 1, 3), mark.pick(f1, 0, 3), mark.pickb(inc), mark.pick(npass, 1, 2)
    with mark.untraced():
        return _wide(ci, f0, f1, inc, npass)
