"""C05 CrossHair harnesses: LIS physical records written = read, at any position; TIF stripping."""
import logging
import os
logging.disable(logging.CRITICAL)
PART = int(os.environ.get('VERIF_PART', '-1'))
from engine import mark
from engine.symio import SymFile, SymWFile, shim_structs
from spec import lis_pr_ref as REF
from TotalDepth.LIS.core import PhysRec, TifMarker, File, RawStream
from TotalDepth import DeTif

shim_structs(PhysRec)
shim_structs(TifMarker)
shim_structs(DeTif)


def _lr(k, n, s):
    return bytes([0x80 + k, s] + [16 * (k + 1) + i for i in range(n)])[:n]


FILE_NUMBERS = [7, 0, 65535]        # an ordinary file number, the legal minimum and the legal maximum


def _write(cap, rec, fil, chk, tif, lrs, fnum=0):
    prt = PhysRec.PhysRecTail(hasRecNum=rec, fileNum=(FILE_NUMBERS[fnum] if fil else None), hasCheckSum=chk)
    f = SymWFile()
    w = File.FileWrite(f, 'w', False, tif, 4 + prt.prtLen + cap, prt)
    pos = [w.write(lr) for lr in lrs]
    w.close()
    return f.getvalue(), pos


def write_then_read_q(cap: int, rec: bool, fil: bool, chk: bool, tif: bool, n0: int, n1: int, fnum: int = 0) -> bool:
    """
    pre: 1 <= cap <= 3 and 1 <= n0 <= 5 and 1 <= n1 <= 3
    pre: PART < 0 or (8 if rec else 0) + (4 if fil else 0) + (2 if chk else 0) + (1 if tif else 0) == PART
    pre: 0 <= fnum <= 2 and (fil or fnum == 0)
    post: _
    """
    return _write_then_read(cap, rec, fil, chk, tif, n0, n1, 0x5a, fnum)


def write_then_read(cap: int, rec: bool, fil: bool, chk: bool, tif: bool, n0: int, n1: int, fnum: int = 0) -> bool:
    """
    pre: 1 <= cap <= 4 and 1 <= n0 <= 7 and 1 <= n1 <= 5
    pre: PART < 0 or (8 if rec else 0) + (4 if fil else 0) + (2 if chk else 0) + (1 if tif else 0) == PART
    pre: 0 <= fnum <= 2 and (fil or fnum == 0)
    post: _
    """
    return _write_then_read(cap, rec, fil, chk, tif, n0, n1, 0x5a, fnum)


def payload_bytes(tif: bool, s0: int, s1: int, s2: int) -> bool:
    """
    pre: 0 <= s0 <= 255 and 0 <= s1 <= 255 and 0 <= s2 <= 255
    post: _
    """
    lrs = [bytes([0x80, s0, 1, s1]), bytes([0x81, s2])]
    data, pos = _write(2, True, False, False, tif, lrs)
    mark.hit()
    r = File.FileRead(SymFile(data), 'r', False)
    return r.readLrBytes() == lrs[0] and r.readLrBytes() == lrs[1] and REF.decode(data, tif) == [(pos[0], lrs[0]), (pos[1], lrs[1])]


def _write_then_read(cap, rec, fil, chk, tif, n0, n1, s, fnum=0):
    cap, n0, n1 = mark.pick(cap, 1, 4), mark.pick(n0, 1, 7), mark.pick(n1, 1, 5)
    rec, fil, chk, tif = mark.pickb(rec), mark.pickb(fil), mark.pickb(chk), mark.pickb(tif)
    fnum = mark.pick(fnum, 0, 2) if fil else 0
    with mark.untraced():
        return _write_then_read_c(cap, rec, fil, chk, tif, n0, n1, s, fnum)


def _write_then_read_c(cap, rec, fil, chk, tif, n0, n1, s, fnum=0):
    lrs = [_lr(0, n0, s), _lr(1, n1, s)]
    data, pos = _write(cap, rec, fil, chk, tif, lrs, fnum)
    mark.hit()
    # layout against the LIS-79 reference; write() positions = logical record starts
    try:
        ref = REF.decode(data, tif)
    except REF.LayoutError:
        return False
    if ref != [(pos[0], lrs[0]), (pos[1], lrs[1])]:
        return False
    # whole-record reads, positions seen while reading
    r = File.FileRead(SymFile(data), 'r', False)
    if r.readLrBytes() != lrs[0] or r.tellLr() != pos[0]:
        return False
    if r.readLrBytes() != lrs[1] or r.tellLr() != pos[1]:
        return False
    # seek in the other order
    r.seekLr(pos[1])
    if r.readLrBytes() != lrs[1] or r.tellLr() != pos[1]:
        return False
    r.seekLr(pos[0])
    if r.readLrBytes() != lrs[0] or r.tellLr() != pos[0]:
        return False
    # skipToNextLr from the start of the first record
    r.seekLr(pos[0])
    r.skipToNextLr()
    if r.readLrBytes() != lrs[1]:
        return False
    return True


def max_length_records(tif: bool, rec: bool, chk: bool, d: int, n1: int) -> bool:
    """
    pre: -2 <= d <= 2 and 1 <= n1 <= 3
    post: _
    """
    # physical records of the maximum legal length (65535, the writer's default): the first logical record fills its first physical
    # record exactly (d = 0), falls short of it or spills into a second one by 1..2 bytes
    tif, rec, chk, d, n1 = mark.pickb(tif), mark.pickb(rec), mark.pickb(chk), mark.pick(d, -2, 2), mark.pick(n1, 1, 3)
    with mark.untraced():
        prt = PhysRec.PhysRecTail(hasRecNum=rec, fileNum=None, hasCheckSum=chk)
        cap = 65535 - 4 - prt.prtLen
        lrs = [bytes([0x80, 0]) + bytes([(i * 7) % 251 for i in range(cap + d - 2)]), _lr(1, n1, 0x33)]
        f = SymWFile()
        w = File.FileWrite(f, 'w', False, tif, 65535, prt)
        pos = [w.write(lr) for lr in lrs]
        w.close()
        data = f.getvalue()
        mark.hit()
        try:
            ref = REF.decode(data, tif)
        except REF.LayoutError:
            return False
        if ref != [(pos[0], lrs[0]), (pos[1], lrs[1])]:
            return False
        r = File.FileRead(SymFile(data), 'r', False)
        if r.readLrBytes() != lrs[0] or r.tellLr() != pos[0]:
            return False
        if r.readLrBytes() != lrs[1] or r.tellLr() != pos[1]:
            return False
        r.seekLr(pos[1])
        if r.readLrBytes() != lrs[1]:
            return False
        r.seekLr(pos[0])
        if r.readLrBytes(10) != lrs[0][:10] or r.skipLrBytes(20) != 20 or r.readLrBytes() != lrs[0][30:]:
            return False
        return True


def many_physical_records(tif: bool, extra: int) -> bool:
    """
    pre: 0 <= extra <= 2
    post: _
    """
    # more than 65536 physical records in one file (record number trailer, one payload byte per record): the 16-bit record number wraps
    tif, extra = mark.pickb(tif), mark.pick(extra, 0, 2)
    with mark.untraced():
        prt = PhysRec.PhysRecTail(hasRecNum=True, fileNum=None, hasCheckSum=False)
        lrs = [bytes([0x80, 0]) + bytes([(i * 7) % 251 for i in range(65534 + extra)]), _lr(1, 3, 0x33)]
        f = SymWFile()
        w = File.FileWrite(f, 'w', False, tif, 4 + prt.prtLen + 1, prt)
        pos = [w.write(lr) for lr in lrs]
        w.close()
        data = f.getvalue()
        mark.hit()
        try:
            ref = REF.decode(data, tif)
        except REF.LayoutError:
            return False
        if ref != [(pos[0], lrs[0]), (pos[1], lrs[1])]:
            return False
        r = File.FileRead(SymFile(data), 'r', False)
        r.seekLr(pos[1])
        return r.readLrBytes() == lrs[1] and r.tellLr() == pos[1]


def strip_tif_is_plain(cap: int, rec: bool, chk: bool, n0: int, n1: int) -> bool:
    """
    pre: 1 <= cap <= 4 and 1 <= n0 <= 7 and 1 <= n1 <= 5
    pre: PART < 0 or (2 if rec else 0) + (1 if chk else 0) == PART
    post: _
    """
    cap, n0, n1, rec, chk = mark.pick(cap, 1, 4), mark.pick(n0, 1, 7), mark.pick(n1, 1, 5), mark.pickb(rec), mark.pickb(chk)
    with mark.untraced():
        return _strip_c(cap, rec, chk, n0, n1)


def _strip_c(cap, rec, chk, n0, n1):
    lrs = [_lr(0, n0, 0x5a), _lr(1, n1, 0x5a)]
    with_tif, _ = _write(cap, rec, False, chk, True, lrs)
    plain, _ = _write(cap, rec, False, chk, False, lrs)
    out = SymWFile()
    out.seek = lambda *a: 0
    markers, nbytes = DeTif.strip_tif(SymFile(with_tif), out)
    mark.hit()
    return out.getvalue() == plain and nbytes == len(plain)


def sized_reads_and_skips_q(cap: int, tif: bool, j: int, k1: int, s1: int, k2: int, s2: int, jump: int = 0) -> bool:
    """
    pre: 2 <= cap <= 3 and 0 <= j <= 1
    pre: 0 <= k1 <= 1 and 0 <= k2 <= 1 and 0 <= s1 <= 5 and 0 <= s2 <= 4
    pre: PART < 0 or (8 if tif else 0) + (cap - 2) * 4 + j * 2 + k1 == PART
    pre: 0 <= jump <= 2
    post: _
    """
    return _sized(cap, tif, j, k1, s1, k2, s2, jump)


def sized_reads_and_skips(cap: int, tif: bool, j: int, k1: int, s1: int, k2: int, s2: int, jump: int = 0) -> bool:
    """
    pre: 2 <= cap <= 3 and 0 <= j <= 1
    pre: 0 <= k1 <= 1 and 0 <= k2 <= 1 and 0 <= s1 <= 6 and 0 <= s2 <= 6
    pre: PART < 0 or (8 if tif else 0) + (cap - 2) * 4 + j * 2 + k1 == PART
    pre: 0 <= jump <= 2
    post: _
    """
    return _sized(cap, tif, j, k1, s1, k2, s2, jump)


def _sized(cap, tif, j, k1, s1, k2, s2, jump=0):
    # symbolic read sizes make the file object return symbolic-LENGTH byte strings, which the solver's sequence theory does not get
    # through (every path timed out when probed); the sizes are therefore realized first - the path tree still covers every size
    cap, tif, j, k1, k2, s1, s2 = mark.pick(cap, 2, 3), mark.pickb(tif), mark.pick(j, 0, 1), mark.pick(k1, 0, 1), mark.pick(k2, 0, 1), mark.pick(s1, 0, 6), mark.pick(s2, 0, 6)
    jump = mark.pick(jump, 0, 2)
    with mark.untraced():
        return _sized_c(cap, tif, j, k1, s1, k2, s2, jump)


def _sized_c(cap, tif, j, k1, s1, k2, s2, jump=0):
    # record 0 spans 3..5 physical records, so that one sized request can cross several boundaries and still end inside the record
    lrs = [_lr(0, 9, 1), _lr(1, 4, 2)]
    data, pos = _write(cap, True, False, False, tif, lrs)
    r = File.FileRead(SymFile(data), 'r', False)
    r.seekLr(pos[j])
    mark.hit()
    lr = lrs[j]
    o = 0
    for kind, size in ((k1, s1), (k2, s2)):
        rem = len(lr) - o
        take = size if size < rem else rem
        if kind == 0:
            got = r.readLrBytes(size)
            if rem == 0:
                if got is not None:
                    return False
                return True         # end of record reached: the reader has consumed the trailer, nothing more is specified here
            if got != lr[o:o + take]:
                return False
        else:
            got = r.skipLrBytes(size)
            if rem == 0:
                return got == 0
            if got != take:
                return False
        o += take
        if r.tellLr() != pos[j]:
            return False
    if jump:
        # leave the record where the sized reads stopped (possibly inside a non-final physical record) and seek to the reported start of
        # the other (jump 1) or the same (jump 2) logical record: position, start flag and content are those of that record
        j2 = 1 - j if jump == 1 else j
        r.seekLr(pos[j2])
        if r.readLrBytes(1) != lrs[j2][:1]:
            return False
        if r.tellLr() != pos[j2]:
            return False
        r.seekCurrentLrStart()
        return r.readLrBytes() == lrs[j2]
    # the rest of the record
    rest = r.readLrBytes()
    if o == len(lr):
        return rest is None
    return rest == lr[o:]
