"""C13 CrossHair harnesses: BIT block de-interleave, frame count, X axis, TIF block walk."""
import logging
import os
PART = int(os.environ.get('VERIF_PART', '-1'))
logging.disable(logging.CRITICAL)
from engine import mark
from engine.fakenp import FakeNp
from engine.symio import SymFile, PyStruct
from TotalDepth.BIT import ReadBIT
from TotalDepth.common import LogPass as CLP

import numpy as _real_np
_REAL_STRUCT = ReadBIT.TIF_WORD_STRUCT
_PY_STRUCT = PyStruct(ReadBIT.TIF_WORD_STRUCT.format)


def use_fake(on):
    """Switch the list-backed numpy stand-in and the PyStruct shim on (symbolic execution) or off (native runs of other harnesses)."""
    ReadBIT.np = FakeNp if on else _real_np
    CLP.np = FakeNp if on else _real_np
    ReadBIT.TIF_WORD_STRUCT = _PY_STRUCT if on else _REAL_STRUCT


use_fake(True)

NAMES = [b'AAA ', b'BBB ', b'CCC ']
F_1000 = b'\x43\x3e\x80\x00'   # 1000.0
F_900 = b'\x43\x38\x40\x00'    # 900.0
F_1100 = b'\x43\x44\xc0\x00'   # 1100.0
F_1001 = b'\x43\x3e\x90\x00'   # 1001.0
F_999 = b'\x43\x3e\x70\x00'    # 999.0
F_HALF = b'\x40\x80\x00\x00'   # 0.5
F_ZERO = b'\x00\x00\x00\x00'


def first_block(nch, inc, near=False):
    b = b'\x00\x02\x00\x00' + b'D' * 72 + b'\x00\x0a\x00\x18\x00' + b'U' * 75 + b'\x00\x12\x00\x0b\x00\x06  '
    b = b + bytes([0, nch]) + b'\x00\x00'
    for i in range(20):
        b = b + (NAMES[i] if i < 3 else b'    ')
    # near: the header range ends after 3 frames (1000 .. 1001 / 999) although more frames are recorded (padded last block): X carries on
    stop = (F_1001 if inc else F_999) if near else (F_1100 if inc else F_900)
    b = b + F_1000 + stop + F_HALF + F_ZERO + F_ZERO + b'TAILTAIL'
    return b


FIRST = {(n, i): first_block(n, i) for n in (1, 2, 3) for i in (False, True)}
FIRST_NEAR = {(n, i): first_block(n, i, True) for n in (1, 2, 3) for i in (False, True)}


def value_bytes(k, c, j, s):
    """4 bytes of the value of block k, channel c, frame j: distinct per position, plus one symbolic byte."""
    return bytes([0x42, 0x10 + k * 64 + c * 16 + j, s, c * 4 + j])


def data_block(k, nch, nfr, s):
    vals = []
    for c in range(nch):
        for j in range(nfr):
            vals.extend([0x42, 0x10 + k * 64 + c * 16 + j, s, c * 4 + j])
    return bytes(vals)


def _expected(nch, frames, syms):
    exp = [[] for _ in range(nch)]
    for k, nfr in enumerate(frames):
        for c in range(nch):
            for j in range(nfr):
                exp[c].append(list(ReadBIT.gen_floats(value_bytes(k, c, j, syms[k])))[0])
    return exp


def _check_array(bfa, nch, frames, syms, inc):
    tot = 0
    for f in frames:
        tot += f
    if bfa.frame_count != tot:
        return False
    fa = bfa.frame_array
    if len(fa.channels) != nch + 1:
        return False
    exp = _expected(nch, frames, syms)
    for c in range(nch):
        ch = fa.channels[c + 1]
        if ch.ident != NAMES[c].decode('ascii') or len(ch.array) != tot:
            return False
        if ch.array.flat_values() != exp[c]:
            return False
    x = fa.channels[0]
    if len(x.array) != tot:
        return False
    for i in range(tot):
        want = 1000.0 + 0.5 * i if inc else 1000.0 - 0.5 * i
        if x.array.flat_values()[i] != want:
            return False
    return True


def check_blocks(nch: int, nb: int, f0: int, f1: int, inc: bool, near: bool = False) -> bool:
    """
    pre: 1 <= nch <= 3 and 1 <= nb <= 2
    pre: 1 <= f0 <= 3 and 1 <= f1 <= 3
    post: _
    """
    return _blocks(nch, nb, f0, f1, 5, 6, inc, near)


def check_blocks_data(nch: int, nb: int, f0: int, f1: int, s0: int, s1: int, inc: bool) -> bool:
    """
    pre: nch == 2 and 1 <= nb <= 2
    pre: f0 == 2 and 1 <= f1 <= 2
    pre: 0 <= s0 <= 255 and 0 <= s1 <= 255
    post: _
    """
    # the byte -> float map is decided over all 2^32 patterns by the SMT obligations; here the four bytes of each value travel as a
    # tuple so that the (symbolic) bytes can be followed through the de-interleave without float arithmetic
    real = ReadBIT.gen_floats
    ReadBIT.gen_floats = _gen_tuples
    try:
        return _blocks(nch, nb, f0, f1, s0, s1, inc)
    finally:
        ReadBIT.gen_floats = real


def _gen_tuples(b):
    offset = 0
    while len(b) > offset:
        yield (b[offset], b[offset + 1], b[offset + 2], b[offset + 3])
        offset += 4


def _blocks(nch, nb, f0, f1, s0, s1, inc, near=False):
    tb = ReadBIT.TifMarkedBytes(0, ReadBIT.TifType.DATA, (FIRST_NEAR if near else FIRST)[(nch, inc)])
    bfa = ReadBIT.BITFrameArray('0', tb)
    frames = [f0, f1][:nb]
    syms = [s0, s1]
    for k in range(nb):
        bfa.add_block(data_block(k, nch, frames[k], syms[k]))
    bfa.complete()
    mark.hit()
    return _check_array(bfa, nch, frames, syms, inc)


def _tif(ty, prev, nxt):
    return _PY_STRUCT.pack(ty, prev, nxt)


def build_file(passes, near=False, term=0):
    """passes: list of (nch, inc, [payload blocks]).  Returns the TIF-marked file bytes.  term: how the file ends - 0 with the end-of-pass and the
    end-of-file marker, 1 without the end-of-file marker, 2 with neither (the medium ends after the last data block: the reader takes the end
    of the medium as the end of the pass)."""
    out = b''
    prev = 0
    pos = 0
    for pi, (nch, inc, blocks) in enumerate(passes):
        for pl in [(FIRST_NEAR if near else FIRST)[(nch, inc)]] + blocks:
            nxt = pos + 12 + len(pl)
            out = out + _tif(0, prev, nxt) + pl
            prev, pos = pos, nxt
        if term == 2 and pi == len(passes) - 1:
            return out
        nxt = pos + 12
        out = out + _tif(1, prev, nxt)
        prev, pos = pos, nxt
    if term == 0:
        out = out + _tif(1, prev, pos + 12)
    return out


def check_file(npass: int, nch: int, nb: int, f0: int, f1: int, inc: bool, near: bool = False, term: int = 0) -> bool:
    """
    pre: 1 <= npass <= 3 and 1 <= nch <= 2 and 0 <= nb <= 2
    pre: 1 <= f0 <= 2 and 1 <= f1 <= 2 and 0 <= term <= 2
    pre: PART < 0 or term == PART
    post: _
    """
    # nb = 0: a log pass whose header is followed directly by the end-of-pass marker (no data): a frame array with the header's channels, no frames
    frames = [f0, f1][:nb]
    syms = [9, 7]
    passes = []
    for p in range(npass):
        passes.append((nch, inc, [data_block(k, nch, frames[k], syms[k]) for k in range(nb)]))
    f = SymFile(build_file(passes, near, term))
    # the file object is used for several calls: the type test first, then two reads (each must start from the beginning of the file)
    if not ReadBIT.is_bit_file(f):
        return False
    first = ReadBIT.create_bit_frame_array_from_file(f)
    got = ReadBIT.create_bit_frame_array_from_file(f)
    mark.hit()
    if len(got) != npass or len(first) != npass:
        return False
    for p in range(npass):
        if got[p].channel_names != [n.decode('ascii') for n in NAMES[:nch]]:
            return False
        if not _check_array(got[p], nch, frames, syms, inc):
            return False
    return True
