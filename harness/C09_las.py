"""C09 CrossHair harnesses: LAS files parse to their content, independent of layout."""
import io
import logging
import os
logging.disable(logging.CRITICAL)
PART = int(os.environ.get('VERIF_PART', '-1'))
from engine import mark
from spec import las_ref as L
from TotalDepth.LAS.core import LASRead

WELL = [('STRT', 'M', '1670.0', 'START DEPTH'), ('STOP', 'M', '1669.75', 'STOP DEPTH'), ('STEP', 'M', '-0.125', 'STEP'),
        ('NULL', '', '-999.25', 'NULL VALUE'), ('COMP', '', 'ANY OIL COMPANY INC.', 'COMPANY'), ('TIME', '', '13:45:10', 'LOG TIME'),
        ('WELL', '', 'A.10-16 #2', 'WELL'), ('RUN', '', '2', 'RUN NUMBER'), ('CASE', '', 'yes', 'CASED'), ('EGL', 'M', '-12', 'GROUND LEVEL'),
        ('TOFF', 'S', '+30', 'TIME OFFSET')]
CURVES = [('DEPT', 'M', '1  DEPTH'), ('GR', 'GAPI', '2  GAMMA RAY'), ('NPHI', 'V/V', '3  NEUTRON POROSITY'), ('ILD', 'OHM.M', '4  DEEP INDUCTION')]      # units may contain dots
# numeric curves that merely share the name of the LAS date / time curves (those are TIME.HHMMSS and DATE.D)
CURVES_ALT = [('DEPT', 'M', '1  DEPTH'), ('TIME', 'S', '2  ELAPSED TIME'), ('DATE', 'YYMMDD', '3  DATE STAMP'), ('ETIM', 'S', '4  TIME SINCE START')]
PARAMS = [('BHT', 'DEGC', '35.5', 'BOTTOM HOLE TEMPERATURE'), ('RMF', 'OHM.M', '0.216', 'MUD FILTRATE RESISTIVITY'), ('TDX', '.1IN', '6570', 'DEPTH INDEX'), ('MUD', '', 'GEL CHEM', 'MUD TYPE'), ('TDEP', 'M', '-5', 'TIE-IN DEPTH')]


def _same(got, want):
    """equal AND of the same type (the value of a header line is typed: integer, float, yes/no or text)."""
    return type(got) is type(want) and got == want
# (genuine readings next to the null value stay live: only the null value itself is absent)
CELLS = ['123.45', '-999.25', '1e3', '0', 'abc', '-.5', '7.', '1.2.3', '-999.2549', '-999.245']


def _content(vers20, ncurves, nframes, params, c0, c1, c2):
    curves = (CURVES_ALT if c0 % 2 == 1 else CURVES)[:ncurves]
    cells = [c0, c1, c2]
    frames = []
    k = 0
    for f in range(nframes):
        row = ['%.3f' % (1670.0 - 0.125 * f)]
        for c in range(1, ncurves):
            row.append(CELLS[(cells[k % 3] + f + c) % len(CELLS)])
            k += 1
        frames.append(row)
    return dict(vers=2.0 if vers20 else 1.2, well=WELL, curves=curves, params=PARAMS if params else None, frames=frames)


def _check(content, lay):
    text = L.render(content, lay)
    las = LASRead.LASRead(io.StringIO(text), 'id')
    mark.hit()
    v = las['V']
    if not _same(v['VERS'].valu, content['vers']) or not _same(v['WRAP'].valu, lay['wrap']):
        return False
    w = las['W']
    if len(w) != len(content['well']):
        return False
    for i, (m, u, val, d) in enumerate(content['well']):
        sl = w[i]
        if (sl.mnem, sl.unit, sl.desc) != (m, u, d) or not _same(sl.valu, L.typed(val)) or w[m] != sl:
            return False
    c = las['C']
    if len(c) != len(content['curves']):
        return False
    for i, (m, u, d) in enumerate(content['curves']):
        sl = c[i]
        if (sl.mnem, sl.unit, sl.valu, sl.desc) != (m, u, '', d):
            return False
    if content['params']:
        p = las['P']
        for i, (m, u, val, d) in enumerate(content['params']):
            sl = p[i]
            if (sl.mnem, sl.unit, sl.desc) != (m, u, d) or not _same(sl.valu, L.typed(val)):
                return False
    elif las.has_section('P'):
        return False
    fa = las.frame_array
    if len(fa.channels) != len(content['curves']) or las.number_of_frames() != len(content['frames']):
        return False
    import numpy as np
    for ci, (m, u, d) in enumerate(content['curves']):
        ch = fa.channels[ci]
        if ch.ident != m or ch.units != u:
            return False
        got = [float(x) for x in np.ma.getdata(ch.array).flatten()]
        want = [L.cell_value(fr[ci]) for fr in content['frames']]
        if got != want:
            return False
        if ci > 0:
            mask = [bool(x) for x in np.ma.getmaskarray(ch.array).flatten()]
            if mask != [x == L.NULL for x in want]:
                return False
    return True


def las_layouts(vers20: bool, ncurves: int, nframes: int, params: bool, wrap: bool, lead: int, sep: int, comments: bool, blanks: bool, per_line: int, colon_pad: int, c0: int, c1: int, c2: int, cind: int = 0) -> bool:
    """
    pre: 1 <= ncurves <= 4 and nframes in (1, 3)
    pre: lead in (0, 2) and sep in (1, 3) and 1 <= per_line <= 3 and colon_pad in (0, 2)
    pre: 0 <= c0 <= 7 and c1 in (0, 4) and c2 in (1, 7)
    pre: 0 <= cind <= 2 and (comments or cind == 0)
    pre: wrap or per_line == 1
    pre: ncurves >= 2 or not wrap
    pre: PART < 0 or (8 if vers20 else 0) + (4 if wrap else 0) + (2 if comments else 0) + (1 if blanks else 0) == PART
    post: _
    """
    vers20, params, wrap, comments, blanks = mark.pickb(vers20), mark.pickb(params), mark.pickb(wrap), mark.pickb(comments), mark.pickb(blanks)
    ncurves, nframes, lead, sep = mark.pick(ncurves, 1, 4), mark.pick(nframes, 1, 3), mark.pick(lead, 0, 2), mark.pick(sep, 1, 3)
    per_line, colon_pad, c0 = mark.pick(per_line, 1, 3), mark.pick(colon_pad, 0, 2), mark.pick(c0, 0, 7)
    c1, c2, cind = mark.pick_from(c1, (0, 4)), mark.pick_from(c2, (1, 7)), mark.pick(cind, 0, 2)
    with mark.untraced():
        content = _content(vers20, ncurves, nframes, params, c0, c1, c2)
        lay = dict(wrap=wrap, lead=lead, sep=sep, comments=comments, blanks=blanks, per_line=per_line, colon_pad=colon_pad, comment_indent=['', '  ', '\t'][cind], vers_fmt='%.2f' if c1 == 4 else '%.1f', blank_fill=['', '   ', ' \t '][(lead + sep) % 3], head_lead=lead if per_line % 2 == 1 else 0)
        return _check(content, lay)


def las_layouts_q(vers20: bool, ncurves: int, nframes: int, wrap: bool, lead: int, sep: int, comments: bool, blanks: bool, per_line: int, c0: int, cind: int = 0) -> bool:
    """
    pre: 1 <= ncurves <= 4 and 1 <= nframes <= 2
    pre: lead in (0, 2) and sep in (1, 3) and 1 <= per_line <= 2
    pre: 0 <= c0 <= 7
    pre: 0 <= cind <= 2 and (comments or cind == 0)
    pre: wrap or per_line == 1
    pre: ncurves >= 2 or not wrap
    pre: PART < 0 or (8 if vers20 else 0) + (4 if wrap else 0) + (2 if comments else 0) + (1 if blanks else 0) == PART
    post: _
    """
    vers20, wrap, comments, blanks, cind = mark.pickb(vers20), mark.pickb(wrap), mark.pickb(comments), mark.pickb(blanks), mark.pick(cind, 0, 2)
    ncurves, nframes, lead, sep = mark.pick(ncurves, 1, 4), mark.pick(nframes, 1, 2), mark.pick_from(lead, (0, 2)), mark.pick_from(sep, (1, 3))
    per_line, c0 = mark.pick(per_line, 1, 2), mark.pick(c0, 0, 7)
    with mark.untraced():
        content = _content(vers20, ncurves, nframes, ncurves % 2 == 0, c0, 4, 7)
        lay = dict(wrap=wrap, lead=lead, sep=sep, comments=comments, blanks=blanks, per_line=per_line, colon_pad=1 + lead // 2, comment_indent=['', '  ', '\t'][cind], vers_fmt='%.2f' if c0 >= 4 else '%.1f', blank_fill=['', '   ', ' \t '][(lead + sep) % 3], head_lead=lead if per_line % 2 == 1 else 0)
        return _check(content, lay)


ALPHA = 'Az0_'
UALPHA = 'Az0.'        # units may contain dots (OHM.M, .1IN)


def sect_line_chars(m0: int, m1: int, u0: int, u1: int, vkind: int, spaces: int) -> bool:
    """
    pre: 0 <= m0 <= 3 and -1 <= m1 <= 3 and -1 <= u0 <= 3 and -1 <= u1 <= 3
    pre: 0 <= vkind <= 11 and 0 <= spaces <= 2
    pre: u0 >= 0 or u1 == -1
    pre: PART < 0 or vkind * 3 + spaces == PART
    post: _
    """
    m0, m1, u0, u1, vkind, spaces = mark.pick(m0, 0, 3), mark.pick(m1, -1, 3), mark.pick(u0, -1, 3), mark.pick(u1, -1, 3), mark.pick(vkind, 0, 11), mark.pick(spaces, 0, 2)
    with mark.untraced():
        mnem = ALPHA[m0] + (ALPHA[m1] if m1 >= 0 else '')
        unit = (UALPHA[u0] if u0 >= 0 else '') + (UALPHA[u1] if u0 >= 0 and u1 >= 0 else '')
        if unit in ('.', '..'):
            return True         # not a unit
        value = ['', '5', '2.5', 'YES', 'no', 'abc def', '12:30', 'a.b', '-999.25', '1e3', '-999', '+30'][vkind]
        desc = 'the description'
        line = '%s%s.%s %s%s:%s%s' % (' ' * spaces, mnem, unit, value, ' ' * spaces, ' ' * spaces, desc)
        mark.hit()
        sl = LASRead.line_to_sect_line(line)
        return (sl.mnem, sl.unit, sl.desc) == (L.typed(mnem), L.typed(unit) if unit else '', desc) and _same(sl.valu, L.typed(value) if value else '')


# ---------------------------------------------------------------------------------------------------- lenient reading

REPEATS = ['DEPT GR RHOB NPHI', 'DEPT GR GR RHOB', 'DEPT GR GR RHOB NPHI RHOB ILD', 'DEPT GR RHOB GR GR NPHI', 'DEPT GR RHOB NPHI NPHI']


def _lenient(pat, wrap, nframes, per_line):
    """Lenient reading (raise_on_error=False) of a file whose curve section repeats mnemonics: the repeats are ignored, every distinct curve
    keeps its place and the values of ITS OWN column.  Without repeats lenient and strict reading agree."""
    import numpy as np
    names = REPEATS[pat].split()
    curves = [(n, 'M' if i == 0 else 'U%d' % i, '%d  COLUMN %d' % (i, i)) for i, n in enumerate(names)]
    frames = [['%.3f' % (1670.0 - 0.125 * f)] + ['%d.%d' % (100 * c + f, c) for c in range(1, len(names))] for f in range(nframes)]
    content = dict(vers=2.0, well=WELL, curves=curves, params=None, frames=frames)
    lay = dict(wrap=wrap, lead=0, sep=2, comments=False, blanks=False, per_line=per_line, colon_pad=1)
    text = L.render(content, lay)
    las = LASRead.LASRead(io.StringIO(text), 'id', raise_on_error=False)
    mark.hit()
    keep = [i for i, n in enumerate(names) if n not in names[:i]]
    fa = las.frame_array
    if [c.ident for c in fa.channels] != [names[i] for i in keep] or [c.units for c in fa.channels] != [curves[i][1] for i in keep]:
        return False
    if las.number_of_frames() != nframes:
        return False
    for ch, i in zip(fa.channels, keep):
        if [float(x) for x in np.ma.getdata(ch.array).flatten()] != [float(fr[i]) for fr in frames]:
            return False
    if len(keep) == len(names):
        strict = LASRead.LASRead(io.StringIO(text), 'id')
        for a, b in zip(strict.frame_array.channels, fa.channels):
            if a.ident != b.ident or not np.array_equal(np.ma.getdata(a.array), np.ma.getdata(b.array)):
                return False
    return True


def lenient_repeated_curves(pat: int, wrap: bool, nframes: int, per_line: int) -> bool:
    """
    pre: 0 <= pat <= 4 and 1 <= nframes <= 3 and 1 <= per_line <= 3
    pre: wrap or per_line == 1
    post: _
    """
    pat, wrap, nframes, per_line = mark.pick(pat, 0, 4), mark.pickb(wrap), mark.pick(nframes, 1, 3), mark.pick(per_line, 1, 3)
    with mark.untraced():
        return _lenient(pat, wrap, nframes, per_line)
