"""C03 CrossHair harnesses: RP66V1 EFLR tables decode to what was encoded; logical file splitting."""
import logging
import os
logging.disable(logging.CRITICAL)
PART = int(os.environ.get('VERIF_PART', '-1'))
from engine import mark
from spec import rp66_eflr_ref as E
from TotalDepth.RP66V1.core.File import LogicalData
from TotalDepth.RP66V1.core.LogicalRecord import EFLR

RCS = [E.USHORT, E.UNORM, E.UVARI, E.IDENT, E.ULONG]


def _val(rc, count, s):
    if rc == E.IDENT:
        return [bytes([65 + (s + i) % 26]) for i in range(count)]
    if rc == E.UNORM:
        return [256 + (s + i) % 256 for i in range(count)]
    if rc == E.ULONG:
        return [[3000000000, 2 ** 31, 2 ** 32 - 1, 70000][(s + i) % 4] for i in range(count)]      # the upper half of the unsigned range too
    if rc == E.UVARI:
        return [128 + (s + i) % 128 for i in range(count)]
    return [(s + i) % 256 for i in range(count)]


def _tattr(j, role, flags, rci, cnt, s):
    """flags bits: 8 C, 4 R, 2 U, 1 V."""
    rc = RCS[rci]
    has_c, has_r, has_u, has_v = flags & 8, flags & 4, flags & 2, flags & 1
    eff_rc = rc if has_r else E.IDENT
    eff_count = cnt if has_c else 1
    return dict(role=role, label=bytes([76, 48 + j]), count=cnt if has_c else None, rc=rc if has_r else None,
                units=b'm' if has_u else None, value=_val(eff_rc, eff_count, s) if has_v else None)


def _comp(kind, flags, rci, cnt, s, tattr, units=b'ft'):
    if kind == 0:
        return None
    if kind == 1:
        return dict(role='ABSATR')
    rc = RCS[rci]
    has_c, has_r, has_u, has_v = flags & 8, flags & 4, flags & 2, flags & 1
    t_rc = tattr['rc'] if tattr['rc'] is not None else E.IDENT
    t_count = tattr['count'] if tattr['count'] is not None else 1
    eff_rc = rc if has_r else t_rc
    eff_count = cnt if has_c else t_count
    return dict(role='ATTRIB', count=cnt if has_c else None, rc=rc if has_r else None, units=units if has_u else None,
                value=_val(eff_rc, eff_count, s) if has_v else None)


def _decode(data, lr_type=3):
    eflr = EFLR.ExplicitlyFormattedLogicalRecord(lr_type, LogicalData(data))
    rows = []
    for o in eflr.objects:
        cells = []
        for a in o.attrs:
            cells.append(None if a is None else (a.label, a.count, a.rep_code, a.units, a.value))
        rows.append(((o.name.O, o.name.C, o.name.I), cells))
    return (eflr.set.type, eflr.set.name, [a.label for a in eflr.template.attrs], rows)


def _table(named, inv0, tf0, tr0, tc0, inv1, tf1, tr1, tc1, nobj, k0, f0, r0, c0, k1, f1, r1, c1, s):
    template = [_tattr(0, 'INVATR' if inv0 else 'ATTRIB', tf0 | (1 if inv0 else 0), tr0, tc0, 3),
                _tattr(1, 'INVATR' if inv1 else 'ATTRIB', tf1 | (1 if inv1 else 0), tr1, tc1, 9)]
    variable = [a for a in template if a['role'] != 'INVATR']
    objects = []
    for n in range(nobj):
        comps = []
        specs = [(k0, f0, r0, c0), (k1, f1, r1, c1)]
        for a, (k, f, r, c) in zip(variable, specs):
            # the second object states EMPTY units explicitly (a legal override of non-empty template units: RP66V1 3.2.2.1)
            comps.append(_comp(k, f, r, c, s + 11 * n, a, b'ft' if n == 0 else b''))
        # components after an omitted one are omitted too (trailing omission only)
        seen_none = False
        for i in range(len(comps)):
            if comps[i] is None:
                seen_none = True
            elif seen_none:
                comps[i] = None
        objects.append(((n + 1, 0, bytes([79, 49 + n])), comps))
    set_ = (b'TYPE', b'NAME' if named else None)
    excl = os.environ.get('VERIF_EXCLUDE', '')
    if 'eflr_invariant_attribute_misparse' in excl and nobj > 0 and (inv0 or inv1):
        return True
    data = E.encode(set_, template, objects)
    got = _decode(data)
    mark.hit()
    return got == E.expected(set_, template, objects, 'eflr_object_absatr_not_marked' in excl)


def eflr_table(named: bool, inv0: bool, tf0: int, tr0: int, inv1: bool, tf1: int, tr1: int, nobj: int, k0: int, f0: int, r0: int, k1: int, f1: int, r1: int) -> bool:
    """
    pre: tf0 in (0, 1, 3, 5, 7, 10, 12, 15) and tf1 in (0, 5, 10, 15) and tr0 in (1, 4) and tr1 == 2
    pre: 0 <= nobj <= 2
    pre: 0 <= k0 <= 2 and 0 <= k1 <= 2 and f0 in (0, 1, 3, 5, 7, 10, 12, 15) and f1 in (0, 1, 5, 15) and r0 in (0, 4) and r1 == 1
    pre: (k0 == 2 or (f0 == 0 and r0 == 0)) and (k1 == 2 or f1 == 0)
    pre: PART < 0 or (8 if inv0 else 0) + (4 if inv1 else 0) + k0 * 12 + k1 * 36 + (2 if named else 0) + (1 if nobj == 2 else 0) == PART
    post: _
    """
    named, inv0, inv1 = mark.pickb(named), mark.pickb(inv0), mark.pickb(inv1)
    tf0, tf1, tr0, tr1 = mark.pick_from(tf0, (0, 1, 3, 5, 7, 10, 12, 15)), mark.pick_from(tf1, (0, 5, 10, 15)), mark.pick_from(tr0, (1, 4)), 2
    nobj, k0, k1 = mark.pick(nobj, 0, 2), mark.pick(k0, 0, 2), mark.pick(k1, 0, 2)
    # the characteristics of a component matter only when the component is an ATTRIB (k == 2)
    f0, r0 = (mark.pick_from(f0, (0, 1, 3, 5, 7, 10, 12, 15)), mark.pick_from(r0, (0, 4))) if k0 == 2 else (0, 0)
    f1, r1 = (mark.pick_from(f1, (0, 1, 5, 15)) if k1 == 2 else 0), 1
    with mark.untraced():
        return _table(named, inv0, tf0, tr0, 2, inv1, tf1, tr1, 2, nobj, k0, f0, r0, 2, k1, f1, r1, 1, 5)


def eflr_template_q(named: bool, inv0: bool, tf0: int, tr0: int, inv1: bool, tf1: int) -> bool:
    """
    pre: 0 <= tf0 <= 15 and 0 <= tr0 <= 4 and tf1 in (0, 5, 10, 15)
    pre: PART < 0 or (4 if inv0 else 0) + (2 if inv1 else 0) + (1 if named else 0) == PART
    post: _
    """
    named, inv0, inv1 = mark.pickb(named), mark.pickb(inv0), mark.pickb(inv1)
    tf0, tr0, tf1 = mark.pick(tf0, 0, 15), mark.pick(tr0, 0, 4), mark.pick_from(tf1, (0, 5, 10, 15))
    with mark.untraced():
        return _table(named, inv0, tf0, tr0, 2, inv1, tf1, 2, 2, 0, 0, 0, 0, 1, 0, 0, 0, 1, 5)


def eflr_objects_q(named: bool, tf0: int, tf1: int, nobj: int, k0: int, f0: int, k1: int, f1: int) -> bool:
    """
    pre: tf0 in (1, 15) and tf1 in (0, 5)
    pre: 1 <= nobj <= 2
    pre: 0 <= k0 <= 2 and 0 <= k1 <= 2 and f0 in (0, 1, 5, 15) and f1 in (0, 1, 15)
    pre: PART < 0 or (8 if named else 0) + (4 if nobj == 2 else 0) + (2 if tf0 == 15 else 0) + (1 if tf1 == 5 else 0) == PART
    post: _
    """
    named = mark.pickb(named)
    tf0, tf1 = mark.pick_from(tf0, (1, 15)), mark.pick_from(tf1, (0, 5))
    nobj, k0, k1 = mark.pick(nobj, 1, 2), mark.pick(k0, 0, 2), mark.pick(k1, 0, 2)
    f0, f1 = mark.pick_from(f0, (0, 1, 5, 15)), mark.pick_from(f1, (0, 1, 15))
    with mark.untraced():
        return _table(named, False, tf0, 2, 2, False, tf1, 2, 2, nobj, k0, f0, 4, 2, k1, f1, 3, 1, 5)


def eflr_values_symbolic(s0: int, s1: int, s2: int, cnt: int) -> bool:
    """
    pre: 0 <= s0 <= 255 and 0 <= s1 <= 255 and 0 <= s2 <= 127 and 1 <= cnt <= 2
    post: _
    """
    # one ATTRIB column (USHORT, template value), one UVARI column; two objects whose cells carry symbolic values
    template = [dict(role='ATTRIB', label=b'A', count=None, rc=E.USHORT, units=None, value=[s0]),
                dict(role='ATTRIB', label=b'B', count=cnt, rc=E.UVARI, units=b'm', value=None)]
    objects = [((1, 0, b'X'), [dict(role='ATTRIB', count=None, rc=None, units=None, value=[s1]), dict(role='ATTRIB', count=None, rc=None, units=None, value=[s2] * cnt)]),
               ((2, 0, b'Y'), [dict(role='ABSATR'), None])]
    set_ = (b'T', None)
    data = E.encode(set_, template, objects)
    got = _decode(data)
    mark.hit()
    return got == E.expected(set_, template, objects, 'eflr_object_absatr_not_marked' in os.environ.get('VERIF_EXCLUDE', ''))


# ---------------------------------------------------------------------------------------------------- logical file splitting

from engine.symio import SymFile
from spec import rp66_file_ref as F
from TotalDepth.RP66V1.core import LogicalFile


def _split(tokens, vr_each):
    """tokens: list of 'F' (FILE-HEADER + ORIGIN), 'G' (FILE-HEADER, encrypted record, ORIGIN), 'P' (PARAMETER EFLR), 'X' (encrypted record),
    'O' (a further ORIGIN record in the same logical file), 'W' (a WELL-REFERENCE record), 'Y' (an encrypted INDIRECTLY formatted record)."""
    recs = []
    model = []            # per logical file: list of expected set types
    idx_of = []           # record index (in recs) of every expected EFLR, per logical file
    k = 0
    for t in tokens:
        if t in ('F', 'G'):
            model.append([b'FILE-HEADER', b'ORIGIN'])
            idx_of.append([len(recs)])
            recs.append(F.record(True, 0, F.file_header(len(model)), new_vr=vr_each))
            if t == 'G':
                recs.append(F.record(True, 5, b'\x9c' * 21, encrypted=True, new_vr=vr_each))
            idx_of[-1].append(len(recs))
            recs.append(F.record(True, 1, F.origin(), new_vr=vr_each))
        elif t == 'O':
            model[-1].append(b'ORIGIN')
            idx_of[-1].append(len(recs))
            recs.append(F.record(True, 1, F.origin(b'SECOND-ORIGIN-%d' % k), new_vr=vr_each))
            k += 1
        elif t == 'W':
            model[-1].append(b'WELL-REFERENCE')
            idx_of[-1].append(len(recs))
            recs.append(F.record(True, 1, F.eflr(b'WELL-REFERENCE', [(b'PERMANENT-DATUM', F.ASCII)], [((2, 0, b'WR'), [[b'MSL']])]), new_vr=vr_each))
        elif t == 'P':
            model[-1].append(b'PARAMETER')
            idx_of[-1].append(len(recs))
            recs.append(F.record(True, 5, F.parameter(k), new_vr=vr_each))
            k += 1
        elif t == 'Y':
            recs.append(F.record(False, 0, b'\x9c' * (21 + k), encrypted=True, new_vr=vr_each))
        else:
            recs.append(F.record(True, 5, b'\x9c' * (20 + k), encrypted=True, new_vr=vr_each))
    data, layout = F.build(recs)
    with LogicalFile.LogicalIndex(SymFile(data)) as li:
        mark.hit()
        if len(li) != len(model):
            return False
        for lf, types, idxs in zip(li.logical_files, model, idx_of):
            if [pe.eflr.set.type for pe in lf.eflrs] != types:
                return False
            if [(pe.lrsh_position.vr_position, pe.lrsh_position.lrsh_position) for pe in lf.eflrs] != [(layout[i][0], layout[i][1]) for i in idxs]:
                return False
    return True


def logical_file_split(n: int, t1: int, t2: int, t3: int, t4: int, g0: bool, vr_each: bool) -> bool:
    """
    pre: 0 <= n <= 4
    pre: 0 <= t1 <= 6 and 0 <= t2 <= 6 and 0 <= t3 <= 6 and 0 <= t4 <= 6
    pre: PART < 0 or (2 if g0 else 0) + (1 if vr_each else 0) + 4 * t1 == PART
    post: _
    """
    n, t1, t2, t3, t4 = mark.pick(n, 0, 4), mark.pick(t1, 0, 6), mark.pick(t2, 0, 6), mark.pick(t3, 0, 6), mark.pick(t4, 0, 6)
    g0, vr_each = mark.pickb(g0), mark.pickb(vr_each)
    names = 'FGPXOWY'
    tokens = ['G' if g0 else 'F'] + [names[t] for t in (t1, t2, t3, t4)][:n]
    with mark.untraced():
        return _split(tokens, vr_each)


# ---------------------------------------------------------------------------------------------------- a table that fills the largest visible record

BIG_VR = [16384, 16382, 8192, 16380]        # the RP66V1 maximum (2.3.6.5), just below it, a common size


def _big_table(k, tl, second, two_segments):
    """FILE-HEADER and ORIGIN in one visible record, then a PARAMETER table whose single segment (or two segments) fills a visible record of
    exactly BIG_VR[k] bytes - a long ASCII value - then optionally a second logical file."""
    def payload(n):
        return F.eflr(b'PARAMETER', [(b'LONG-NAME', F.ASCII), (b'VALUES', E.UNORM)],
                      [((2, 0, b'BIG'), [[bytes([65 + i % 23 for i in range(n)])], [300, 301]]), ((2, 0, b'P1'), [[b'short <&>'], [7]])])
    extra = 2 if tl else 0
    room = BIG_VR[k] - 4 - (2 if two_segments else 1) * (4 + extra)          # payload bytes that fit
    n = room - len(payload(0))
    while len(payload(n)) > room:
        n -= 1
    pl = payload(n)
    if len(pl) != room:
        return True            # (cannot happen: one more value byte is one more payload byte below the next UVARI size)
    recs = [F.record(True, 0, F.file_header(1), new_vr=True), F.record(True, 1, F.origin())]
    if two_segments:
        recs.append(F.record_split(True, 5, pl, 4000, trailing=tl, new_vr=True))
    else:
        recs.append((True, 5, [dict(payload=pl, pad=0, checksum=False, trailing=tl, encrypted=False, new_vr=True)]))
    if second:
        recs.append(F.record(True, 0, F.file_header(2), new_vr=True))
        recs.append(F.record(True, 1, F.origin(b'SECOND')))
    data, layout = F.build(recs)
    if ((data[layout[2][0]] << 8) | data[layout[2][0] + 1]) != BIG_VR[k]:
        return True            # (cannot happen: the builder is exact)
    with LogicalFile.LogicalIndex(SymFile(data)) as li:
        mark.hit()
        if len(li) != (2 if second else 1):
            return False
        lf = li.logical_files[0]
        if [pe.eflr.set.type for pe in lf.eflrs] != [b'FILE-HEADER', b'ORIGIN', b'PARAMETER']:
            return False
        if second and [pe.eflr.set.type for pe in li.logical_files[1].eflrs] != [b'FILE-HEADER', b'ORIGIN']:
            return False
        pe = lf.eflrs[2]
        if (pe.lrsh_position.vr_position, pe.lrsh_position.lrsh_position) != (layout[2][0], layout[2][1]):
            return False
        t = pe.eflr
        if [a.label for a in t.template.attrs] != [b'LONG-NAME', b'VALUES'] or [(o.name.O, o.name.C, o.name.I) for o in t.objects] != [(2, 0, b'BIG'), (2, 0, b'P1')]:
            return False
        big, p1 = t.objects
        if [(a.count, a.rep_code, a.units, a.value) for a in big.attrs] != [(1, F.ASCII, b'', [bytes([65 + i % 23 for i in range(n)])]), (2, E.UNORM, b'', [300, 301])]:
            return False
        if [(a.count, a.rep_code, a.units, a.value) for a in p1.attrs] != [(1, F.ASCII, b'', [b'short <&>']), (1, E.UNORM, b'', [7])]:
            return False
    return True


def big_table(k: int, tl: bool, second: bool, two_segments: bool) -> bool:
    """
    pre: 0 <= k <= 3
    post: _
    """
    k, tl, second, two_segments = mark.pick(k, 0, 3), mark.pickb(tl), mark.pickb(second), mark.pickb(two_segments)
    with mark.untraced():
        return _big_table(k, tl, second, two_segments)


# ---------------------------------------------------------------------------------------------------- the three kinds of set

SET_ROLES = ['SET', 'RSET', 'RDSET']        # set, replacement set, redundant set (RP66V1 3.2.2.1): all three open a table


def _set_kinds(r1, r2, named, both):
    """FILE-HEADER, ORIGIN, a PARAMETER table opened by a component of role r1 (named or not) and optionally a TOOL table of role r2."""
    recs = [F.record(True, 0, F.file_header(1)), F.record(True, 1, F.origin())]
    prm = [((2, 0, b'P0'), [[b'param <&>'], [300, 301]]), ((2, 0, b'P1'), [[b'x'], [7]])]
    recs.append(F.record(True, 5, F.eflr(b'PARAMETER', [(b'LONG-NAME', F.ASCII), (b'VALUES', E.UNORM)], prm, role=SET_ROLES[r1], name=b'PSET' if named else None)))
    if both:
        recs.append(F.record(True, 5, F.eflr(b'TOOL', [(b'DESCRIPTION', F.ASCII)], [((2, 0, b'T0'), [[b'tool']])], role=SET_ROLES[r2], name=None if named else b'TSET')))
    data, layout = F.build(recs)
    with LogicalFile.LogicalIndex(SymFile(data)) as li:
        mark.hit()
        if len(li) != 1:
            return False
        lf = li.logical_files[0]
        want = [(b'FILE-HEADER', None), (b'ORIGIN', None), (b'PARAMETER', b'PSET' if named else None)] + ([(b'TOOL', None if named else b'TSET')] if both else [])
        got = [(pe.eflr.set.type, pe.eflr.set.name if pe.eflr.set.name else None) for pe in lf.eflrs]
        if got != want:
            return False
        t = lf.eflrs[2].eflr
        if [(o.name.O, o.name.C, o.name.I) for o in t.objects] != [(2, 0, b'P0'), (2, 0, b'P1')]:
            return False
        if [[(a.label, a.count, a.rep_code, a.value) for a in o.attrs] for o in t.objects] != \
                [[(b'LONG-NAME', 1, F.ASCII, [b'param <&>']), (b'VALUES', 2, E.UNORM, [300, 301])], [(b'LONG-NAME', 1, F.ASCII, [b'x']), (b'VALUES', 1, E.UNORM, [7])]]:
            return False
        if both:
            t = lf.eflrs[3].eflr
            if [[(a.label, a.value) for a in o.attrs] for o in t.objects] != [[(b'DESCRIPTION', [b'tool'])]]:
                return False
    return True


def set_kinds(r1: int, r2: int, named: bool, both: bool) -> bool:
    """
    pre: 0 <= r1 <= 2 and 0 <= r2 <= 2
    post: _
    """
    r1, r2, named, both = mark.pick(r1, 0, 2), mark.pick(r2, 0, 2), mark.pickb(named), mark.pickb(both)
    with mark.untraced():
        return _set_kinds(r1, r2, named, both)
