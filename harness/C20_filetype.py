"""C20 CrossHair harnesses: file type identification recognises every supported format and never crashes."""
import io
import logging
import os
logging.disable(logging.CRITICAL)
PART = int(os.environ.get('VERIF_PART', '-1'))
from engine import mark
from engine.symio import SymFile
from TotalDepth.util import bin_file_type

CODES = set(bin_file_type.BINARY_FILE_TYPES_SUPPORTED) | {''}


class _NoPprint:
    """LIS.core.File formats a settings dict for a debug message with pprint.pformat -> an f-string with a '!r:5' conversion that
    CrossHair's f-string interception cannot execute (SystemError).  Formatting is not the subject: stubbed to an empty string."""
    @staticmethod
    def pformat(*a, **k):
        return ''


from TotalDepth.LIS.core import File as _LisFile
_LisFile.pprint = _NoPprint


def _typed(data):
    f = io.BytesIO(data)
    t = bin_file_type.binary_file_type(f)
    ok = t in CODES and f.tell() == 0 and f.read() == data
    return t, ok


def recognise_rp66v1(order: int, vr_each: bool, d1: int, d2: int, d3: int, m3: int, m4: int, pay: int) -> bool:
    """
    pre: 0 <= order <= 4 and d1 in (0, 5, 10) and d2 in (0, 7, 10) and d3 in (1, 5, 9) and m3 in (0, 9) and m4 in (0, 4) and pay in (0, 128, 255)
    pre: d1 == 10 or d2 != 10
    pre: PART < 0 or order == PART
    post: _
    """
    order, d1, d2, d3, m3, m4, pay = mark.pick(order, 0, 4), mark.pick_from(d1, (0, 5, 10)), mark.pick_from(d2, (0, 7, 10)), mark.pick_from(d3, (1, 5, 9)), mark.pick_from(m3, (0, 9)), mark.pick_from(m4, (0, 4)), mark.pick_from(pay, (0, 128, 255))
    vr_each = mark.pickb(vr_each)
    with mark.untraced():
        import C04_frames as H4
        from spec import rp66_ref as R
        o = H4.ORDERS[order]
        data, layout, model = H4._build(o, 1 in o, -1, vr_each)
        dig = lambda d: b' ' if d == 10 else bytes([48 + d])
        seq = b' ' + dig(d1) + dig(d2) + dig(d3)
        if d1 != 10 and d2 == 10:
            return True
        mx = b'081' + bytes([48 + m3, 48 + m4])
        sul = seq + b'V1.00RECORD' + mx + b'Default Storage Set'.ljust(60)
        body = data[80:]
        # a data byte somewhere in the last record changes nothing
        body = body[:-3] + bytes([pay]) + body[-2:]
        mark.hit()
        t, ok = _typed(sul + body)
        return ok and t == 'RP66V1'


def recognise_lis(f1: int, indirect: bool, tif: bool, table: bool, split: bool, reel: bool, pad: int = 0) -> bool:
    """
    pre: 1 <= f1 <= 3 and pad in (0, 2, 4) and (pad == 0 or not tif)
    pre: PART < 0 or (8 if indirect else 0) + (4 if tif else 0) + (2 if table else 0) + (1 if split else 0) == PART
    post: _
    """
    f1 = mark.pick(f1, 1, 3)
    indirect, tif, table, split, reel = mark.pickb(indirect), mark.pickb(tif), mark.pickb(table), mark.pickb(split), mark.pickb(reel)
    pad = mark.pick_from(pad, (0, 2, 4))
    with mark.untraced():
        import C06_logpass as H6
        from spec import lis_lr_ref as L
        # split: physical records of at most 23 payload bytes (odd lengths, so that padded files need 1..3 pad bytes)
        data, pos, kinds, model = H6._build([2, f1, 1], indirect, tif, table, 23 if split else None, 0, pad)
        if reel:
            # the same logical records preceded by reel and tape headers
            chs = H6.CHS[1:] if indirect else H6.CHS
            lrs = [bytes([132, 0]) + b' ' * 126, bytes([130, 0]) + b' ' * 126, L.file_head_tail(128), L.dfsr(chs, indirect),
                   L.data_record([L.i32(7) + L.i16(1)] if indirect else [L.i32(1000) + L.i32(7) + L.i16(1)], L.i32(1000) if indirect else None), L.file_head_tail(129)]
            data, pos = L.physical(lrs, tif, 23 if split else None, pad)
        mark.hit()
        t, ok = _typed(data)
        return ok and t == ('LISt' if tif else 'LIS')


# LIS-79 logical record types other than log data / format specification / information tables / delimiters, by number (written from the
# standard's list, not from LogiRec): operator input/response, system output, FLIC comment, blank record, picture, image, the boot and
# program records, encrypted table and table dumps, data descriptor, and the logical EOF / BOT / EOT / EOM markers
LIS_OTHER_TYPES = [224, 225, 227, 232, 234, 85, 86, 95, 96, 97, 100, 101, 102, 42, 47, 65, 137, 138, 139, 141]


def recognise_lis_other_records(ti: int, tif: bool, where: int, split: bool, long: bool = False) -> bool:
    """
    pre: 0 <= ti <= 19 and 0 <= where <= 2
    post: _
    """
    ti, tif, where, split, long = mark.pick(ti, 0, 19), mark.pickb(tif), mark.pick(where, 0, 2), mark.pickb(split), mark.pickb(long)
    with mark.untraced():
        import C06_logpass as H6
        from spec import lis_lr_ref as L
        # a LIS file with a record of that type (opaque body) before the format specification, after the data, or as the only record of the file
        body = bytes([LIS_OTHER_TYPES[ti], 0]) + b'SOME TEXT 0123456789 \x00\xff' * 2
        if long:
            # a long plain-text body: with the record first, the file begins with several hundred bytes none of which exceeds 0x80 (the
            # file header's type byte itself is 0x80)
            body = bytes([LIS_OTHER_TYPES[ti], 0]) + b'PLAIN TEXT, NOTHING BUT TEXT 0123456789. ' * 8
        log = [L.dfsr(H6.CHS, False), L.data_record([L.i32(1000) + L.i32(7) + L.i16(1)], None)]
        lrs = [L.file_head_tail(128)] + ([body] + log, log + [body], [body])[where] + [L.file_head_tail(129)]
        data, pos = L.physical(lrs, tif, 23 if split else None, 0)
        mark.hit()
        t, ok = _typed(data)
        return ok and t == ('LISt' if tif else 'LIS')


def recognise_las(vers20: bool, ncurves: int, wrap: bool, lead: int, comments: bool, blanks: bool, c0: int) -> bool:
    """
    pre: 2 <= ncurves <= 4 and 0 <= lead <= 2 and 0 <= c0 <= 7
    pre: PART < 0 or (8 if vers20 else 0) + (4 if wrap else 0) + (2 if comments else 0) + (1 if blanks else 0) == PART
    post: _
    """
    ncurves, lead, c0 = mark.pick(ncurves, 2, 4), mark.pick(lead, 0, 2), mark.pick(c0, 0, 7)
    vers20, wrap, comments, blanks = mark.pickb(vers20), mark.pickb(wrap), mark.pickb(comments), mark.pickb(blanks)
    with mark.untraced():
        import C09_las as H9
        from spec import las_ref
        content = H9._content(vers20, ncurves, 2, True, c0, 4, 7)
        lay = dict(wrap=wrap, lead=lead, sep=2, comments=comments, blanks=blanks, per_line=2, colon_pad=1, comment_indent=' ' * lead,
                   vers_fmt='%.2f' if c0 % 2 else '%.1f')
        text = las_ref.render(content, lay)
        mark.hit()
        t, ok = _typed(text.encode('ascii'))
        return ok and t == ('LAS2.0' if vers20 else 'LAS1.2')


def recognise_bit_dat(which: int, nch: int, f0: int, inc: bool, s: int, perm: int, hdr: int, nrows: int, tab: bool, big: int = 0) -> bool:
    """
    pre: 0 <= which <= 1 and 1 <= nch <= 3 and 1 <= f0 <= 3 and s in (0, 128, 255) and 0 <= perm <= 3 and 0 <= hdr <= 3 and 1 <= nrows <= 2
    pre: which == 1 or (perm == 0 and hdr == 0 and nrows == 1 and not tab)
    pre: which == 0 or (nch == 1 and f0 == 1 and s == 0)
    pre: 0 <= big <= 3 and (which == 1 or big == 0)
    pre: PART < 0 or which * 4 + (perm if which else nch) == PART
    post: _
    """
    which, nch, f0, s, perm, hdr, nrows = mark.pick(which, 0, 1), mark.pick(nch, 1, 3), mark.pick(f0, 1, 3), mark.pick_from(s, (0, 128, 255)), mark.pick(perm, 0, 3), mark.pick(hdr, 0, 3), mark.pick(nrows, 1, 2)
    inc, tab, big = mark.pickb(inc), mark.pickb(tab), mark.pick(big, 0, 3)
    with mark.untraced():
        if which == 0:
            import C13_bit as H13
            data = H13.build_file([(nch, inc, [H13.data_block(0, nch, f0, s)])])
            mark.hit()
            t, ok = _typed(data)
            return ok and t == 'BIT'
        import C14_dat as H14
        text, names, model = H14._text(perm, hdr, nrows, tab, inc, 1, 11, 0, 0)
        if big:
            # size must not matter: big 1 = 40, big 2 = 150 further declared channels that are all on the header line (declarations + header
            # of about 2 KB / 7 KB), big 3 = 400 further data rows
            lines = text.split('\n')[:-1]
            sep = '\t' if tab else ' '
            nd = len(H14.DECLS)
            if big in (1, 2):
                extra = ['X%03d' % k for k in range(40 if big == 1 else 150)]
                decl = ['%s Extra channel number %d percent' % (n, k) for k, n in enumerate(extra)]
                lines = lines[:nd] + decl + [lines[nd] + sep + sep.join(extra)] + [l + sep + sep.join('%d.5' % k for k in range(len(extra))) for l in lines[nd + 1:]]
            else:
                lines = lines + [lines[-1]] * 400
            text = '\n'.join(lines) + '\n'
            if H14.DAT_parser.parse_file(io.StringIO(text), 'id') is None:
                return False
        mark.hit()
        t, ok = _typed(text.encode('ascii'))
        return ok and t == 'DAT'


def totality(buf: bytes) -> bool:
    """
    pre: len(buf) <= 12
    post: _
    """
    f = SymFile(buf)
    mark.hit()
    try:
        t = bin_file_type.binary_file_type(f)
    except Exception:
        return False
    if t not in CODES:
        return False
    return f.tell() == 0 and f.read() == buf


def totality_signatures(k: int, b0: int, b1: int, b2: int, b3: int, n: int) -> bool:
    """
    pre: 0 <= k <= 13 and 0 <= b0 <= 255 and 0 <= b1 <= 255 and 0 <= b2 <= 255 and 0 <= b3 <= 255 and n in (0, 1, 7, 40)
    pre: PART < 0 or k == PART
    post: _
    """
    # a known signature (or TIF / SUL prefix) followed by symbolic bytes and a symbolic amount of filler: every early-exit length check
    k, n = mark.pick(k, 0, 13), mark.pick_from(n, (0, 1, 7, 40))
    sig = [b'\x04\x00\x00\x00\x00\x00\x00\x00\xff\xff\xff\xff', b'\x04\x00\x00\x00\x01\x00\x00\x00\x04\x00', b'\x00' * 8 + b'\x20\x01\x00\x00',
           b'\xd0\xcf\x11\xe0\xa1\xb1\x1a', b'\x01\x19\xf1\xf8\xff\x82\x03', b'<?xml', b'%PDF', b'%!Ps', b'PK\x03', b'II*', b'\xff\xd8\xff',
           b'~V\nVERS. 2.0 :', b'0001V1.00RECORD08192', b'\x00' * 8 + b'\x5c\x00\x00\x00' + b'0001V1.00RECORD08192'][k]
    data = sig + bytes([b0, b1, b2, b3]) + b'A' * n
    f = SymFile(data)
    mark.hit()
    try:
        t = bin_file_type.binary_file_type(f)
    except Exception:
        return False
    return t in CODES and f.tell() == 0


# ---------------------------------------------------------------------------------------------------- totality over a finite alphabet (decided; the fully symbolic versions above are bug hunting)

SIGS = [b'\x04\x00\x00\x00\x00\x00\x00\x00\xff\xff\xff\xff', b'\x04\x00\x00\x00\x01\x00\x00\x00\x04\x00', b'\x00' * 8 + b'\x20\x01\x00\x00',
        b'\xd0\xcf\x11\xe0\xa1\xb1\x1a', b'\x01\x19\xf1\xf8\xff\x82\x03', b'<?xml', b'%PDF', b'%!Ps', b'PK\x03', b'II*', b'\xff\xd8\xff',
        b'~V\nVERS. 2.0 :', b'0001V1.00RECORD08192', b'\x00' * 8 + b'\x5c\x00\x00\x00' + b'0001V1.00RECORD08192',
        b'\x00\x3e\x00\x00\x80\x00', b'\x00\x00\x00\x00\x00\x00\x00\x00\x4a\x00\x00\x00\x00\x3e\x00\x00\x80\x00', b'UTIM Unix Time sec\n', b'~Version\n']
ALPHABET = [0x00, 0x01, 0x20, 0x0a, 0x30, 0x7e, 0x80, 0xff]         # NUL, SOH, space, LF, '0', '~', two high bytes


def totality_signatures_alphabet(k: int, b0: int, b1: int, b2: int, b3: int, n: int) -> bool:
    """
    pre: 0 <= k <= 17 and 0 <= b0 <= 7 and 0 <= b1 <= 7 and b2 in (0, 2, 5, 7) and b3 in (0, 2, 7) and n in (0, 1, 7, 40)
    pre: PART < 0 or k == PART
    post: _
    """
    k, n = mark.pick(k, 0, 17), mark.pick_from(n, (0, 1, 7, 40))
    b0, b1, b2, b3 = mark.pick(b0, 0, 7), mark.pick(b1, 0, 7), mark.pick_from(b2, (0, 2, 5, 7)), mark.pick_from(b3, (0, 2, 7))
    with mark.untraced():
        data = SIGS[k] + bytes([ALPHABET[b0], ALPHABET[b1], ALPHABET[b2], ALPHABET[b3]]) + b'A' * n
        mark.hit()
        try:
            t, ok = _typed(data)
        except Exception:
            return False
        return ok


def totality_alphabet(n: int, c0: int, c1: int, c2: int, c3: int, c4: int) -> bool:
    """
    pre: 0 <= n <= 5
    pre: 0 <= c0 <= 7 and 0 <= c1 <= 7 and 0 <= c2 <= 7 and 0 <= c3 <= 7 and 0 <= c4 <= 7
    pre: (n >= 1 or c0 == 0) and (n >= 2 or c1 == 0) and (n >= 3 or c2 == 0) and (n >= 4 or c3 == 0) and (n >= 5 or c4 == 0)
    pre: PART < 0 or c0 == PART
    post: _
    """
    n = mark.pick(n, 0, 5)
    cs = [mark.pick(c, 0, 7) if n > i else 0 for i, c in enumerate((c0, c1, c2, c3, c4))]
    with mark.untraced():
        data = bytes(ALPHABET[c] for c in cs[:n])
        mark.hit()
        try:
            t, ok = _typed(data)
        except Exception:
            return False
        return ok
