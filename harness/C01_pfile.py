"""C01/C02 CrossHair harnesses: RP66V1 physical layer.  Structured files: symbolic segment options, VR splits, record boundaries."""
import logging
import os
logging.disable(logging.CRITICAL)
PART = int(os.environ.get('VERIF_PART', '-1'))
from engine import mark
from engine.symio import SymFile
from spec import rp66_ref as R
from TotalDepth.RP66V1.core import pFile


def _seg(k, pad, cs, tl, enc, new_vr, s):
    # payload: 9 + k bytes, one of them symbolic; length parity is fixed up by the pad count / an extra payload byte
    payload = bytes([0x10 * (k + 1) + i for i in range(8 + k)]) + bytes([s])
    if pad == 9:
        # a segment that carries no record bytes at all: header + 12 pad bytes (the minimum segment length is 16)
        payload, pad = b'', 12
    seg = dict(payload=payload, pad=pad, checksum=cs, trailing=tl, encrypted=enc, new_vr=new_vr)
    n = 4 + len(payload) + pad + (2 if cs else 0) + (2 if tl else 0)
    if n % 2:
        if pad:
            seg['pad'] = pad + 1
        else:
            seg['payload'] = payload + b'\xee'
    while not R.conformant_segment(seg):
        seg['payload'] = seg['payload'] + b'\xdd\xdd'
    return seg


def build(nseg, split, flags, syms):
    """nseg segments in order; split = index (1..nseg) at which the second logical record starts (nseg = single record);
    flags[k] = (pad, cs, tl, enc, new_vr)."""
    segs = [_seg(k, *flags[k], syms[k]) for k in range(nseg)]
    recs = []
    if split >= nseg:
        recs.append((True, 3, segs))
    else:
        recs.append((True, 3, segs[:split]))
        recs.append((False, 0x7f, segs[split:]))
    return recs


def _read_all(data):
    f = SymFile(data)
    got = []
    with pFile.FileRead(f) as fr:
        for fld in fr.iter_logical_records():
            got.append((fld.lr_is_eflr, fld.lr_type, fld.logical_data.bytes))
    return got


def seq_two_segments_q(split: int, pad0: int, cs0: bool, tl0: bool, enc0: bool, pad1: int, cs1: bool, enc1: bool, vr1: bool, s0: int, s1: int) -> bool:
    """
    pre: 1 <= split <= 2
    pre: 0 <= pad0 <= 2 and (0 <= pad1 <= 2 or pad1 == 9)
    pre: 0 <= s0 <= 255 and 0 <= s1 <= 255
    pre: PART < 0 or (split - 1) * 8 + (4 if vr1 else 0) + (2 if enc0 else 0) + (1 if enc1 else 0) == PART
    post: _
    """
    recs = build(2, split, [(pad0, cs0, tl0, enc0, True), (pad1, cs1, False, enc1, vr1)], [s0, s1])
    data, layout = R.encode(recs)
    got = _read_all(data)
    mark.hit()
    return got == R.expected(recs)


def seq_two_segments(split: int, pad0: int, cs0: bool, tl0: bool, enc0: bool, pad1: int, cs1: bool, tl1: bool, enc1: bool, vr1: bool, s0: int, s1: int) -> bool:
    """
    pre: 1 <= split <= 2
    pre: (0 <= pad0 <= 3 or pad0 == 9) and (0 <= pad1 <= 3 or pad1 == 9)
    pre: 0 <= s0 <= 255 and 0 <= s1 <= 255
    pre: PART < 0 or (split - 1) * 8 + (4 if vr1 else 0) + (2 if enc0 else 0) + (1 if enc1 else 0) == PART
    post: _
    """
    recs = build(2, split, [(pad0, cs0, tl0, enc0, True), (pad1, cs1, tl1, enc1, vr1)], [s0, s1])
    data, layout = R.encode(recs)
    got = _read_all(data)
    mark.hit()
    return got == R.expected(recs)


def seq_three_segments(split: int, pad0: int, tl0: bool, pad1: int, cs1: bool, enc1: bool, pad2: int, cs2: bool, tl2: bool, vr1: bool, vr2: bool, s1: int) -> bool:
    """
    pre: 1 <= split <= 3
    pre: 0 <= pad0 <= 2 and 0 <= pad1 <= 2 and (0 <= pad2 <= 2 or pad2 == 9)
    pre: 0 <= s1 <= 255
    pre: PART < 0 or (split - 1) * 4 + (2 if vr1 else 0) + (1 if vr2 else 0) == PART
    post: _
    """
    recs = build(3, split, [(pad0, False, tl0, False, True), (pad1, cs1, False, enc1, vr1), (pad2, cs2, tl2, False, vr2)], [1, s1, 2])
    data, layout = R.encode(recs)
    got = _read_all(data)
    mark.hit()
    return got == R.expected(recs)


VR_LENGTHS = [20, 8192, 16382, 16384]       # minimum, a common size, just below and exactly the RP66V1 maximum (2.3.6: 16384)


def vr_length_boundaries(k0: int, k1: int, pad: int, tl: bool) -> bool:
    """
    pre: 0 <= k0 <= 3 and 0 <= k1 <= 3 and 0 <= pad <= 2
    post: _
    """
    k0, k1, pad, tl = mark.pick(k0, 0, 3), mark.pick(k1, 0, 3), mark.pick(pad, 0, 2), mark.pickb(tl)
    with mark.untraced():
        recs = []
        for r, k in enumerate((k0, k1)):
            # one segment that fills its visible record exactly: VR length = 4 + segment length
            extra = (pad + pad % 2) + (2 if tl else 0)
            n = VR_LENGTHS[k] - 8 - extra
            payload = bytes([(7 * i + r) % 251 for i in range(n)])
            recs.append((r == 0, 3 + r, [dict(payload=payload, pad=pad + pad % 2, checksum=False, trailing=tl, encrypted=False, new_vr=True)]))
        # the label declares the largest visible record of the file as its maximum record length (RP66V1 2.3.2)
        mx = max(VR_LENGTHS[k0], VR_LENGTHS[k1], 20 + 40 * pad)
        sul = b'0001V1.00RECORD' + [b'%05d', b'%5d'][tl] % mx + b'Default Storage Set'.ljust(60)
        data, layout = R.encode(recs, sul)
        for r, k in enumerate((k0, k1)):
            if ((data[layout[r][0]] << 8) | data[layout[r][0] + 1]) != VR_LENGTHS[k]:
                return True       # (cannot happen: the builder is exact)
        got = _read_all(data)
        mark.hit()
        if got != R.expected(recs):
            return False
        # a stream the caller has already read from (the label peeked at, or read to the end), and the same stream used twice: the same records
        for consumed in (80, len(data), 7):
            f = SymFile(data)
            f.read(consumed)
            for _again in range(2):
                with pFile.FileRead(f) as fr:
                    again = [(fld.lr_is_eflr, fld.lr_type, fld.logical_data.bytes) for fld in fr.iter_logical_records()]
                    if fr.sul.maximum_record_length != mx:
                        return False
                if again != got:
                    return False
        with pFile.FileRead(SymFile(data)) as fr:
            lab = fr.sul
        return lab.maximum_record_length == mx and lab.storage_unit_sequence_number == 1 and lab.storage_set_identifier == b'Default Storage Set'.ljust(60)


def sul_fields_seq(d1: int, d2: int, d3: int) -> bool:
    """
    pre: 0 <= d1 <= 10 and 0 <= d2 <= 10 and 0 <= d3 <= 9
    pre: PART < 0 or d1 == PART
    post: _
    """
    return _sul_fields(10, d1, d2, d3, 0, 8, 1, 9, 2)


def sul_fields_max(m2: int, m3: int, m4: int) -> bool:
    """
    pre: 0 <= m2 <= 10 and 0 <= m3 <= 10 and 0 <= m4 <= 9
    pre: PART < 0 or m2 == PART
    post: _
    """
    return _sul_fields(0, 0, 1, 0, 10, 0, m2, m3, m4)


def sul_fields_max_high(m1: int, m2: int, m3: int, m4: int) -> bool:
    """
    pre: 0 <= m1 <= 6 and 0 <= m2 <= 9 and 0 <= m3 <= 9 and 0 <= m4 <= 9
    pre: PART < 0 or m1 == PART
    post: _
    """
    # five significant digits: 10000 .. 16384
    return _sul_fields(0, 0, 1, 0, 1, m1, m2, m3, m4)


def _sul_fields(d0, d1, d2, d3, m0, m1, m2, m3, m4):
    # digit 10 = blank padding; a conformant field is blanks/zeros followed by a number without leading zero
    def field(ds):
        txt = b''
        seen = False
        val = 0
        for d in ds:
            if d == 10:
                if seen:
                    return None, None
                txt = txt + b' '
            else:
                if d != 0:
                    seen = True
                if seen:
                    val = val * 10 + d
                txt = txt + bytes([48 + d])
        if not seen:
            return None, None
        return txt, val
    seq, nseq = field([d0, d1, d2, d3])
    mx, nmx = field([m0, m1, m2, m3, m4])
    if seq is None or mx is None or not (20 <= nmx <= 16384):
        return True
    ident = b'AbC xyz'.ljust(60)
    mark.hit()
    sul = pFile.StorageUnitLabel(seq + b'V1.00' + b'RECORD' + mx + ident)
    return sul.storage_unit_sequence_number == nseq and sul.maximum_record_length == nmx and sul.storage_set_identifier == ident \
        and sul.dlis_version == b'V1.00' and sul.storage_unit_structure == b'RECORD'


# ---------------------------------------------------------------------------------------------------- C02: index and random access

from TotalDepth.RP66V1.core import pIndex


def _index_and_fetch(recs, i, off, ln, j):
    """Index the file; optionally fetch record j first (history); then fetch record i (whole if ln is None else the slice).
    Returns False on any deviation from the reference model."""
    data, layout = R.encode(recs)
    exp = R.expected(recs)
    f = SymFile(data)
    with pIndex.LogicalRecordIndex(f) as idx:
        mark.hit()
        if len(idx) != len(recs):
            return False
        for k in range(len(recs)):
            e = idx[k]
            if e.position.vr_position != layout[k][0] or e.position.lrsh_position != layout[k][1]:
                return False
            if e.description.attributes.is_eflr != exp[k][0] or e.description.lr_type != exp[k][1]:
                return False
            tot = 0
            for vr, sp, sl in layout[k][2]:
                tot += sl
            # logical data length held by the index = segment bytes minus headers / checksums / trailing lengths (pad bytes included)
            want = 0
            for s in recs[k][2]:
                want += len(s['payload']) + s['pad']
            if e.description.ld_length != want:
                return False
        if idx.visible_record_positions != [layout[k][0] for k in range(len(recs))]:
            return False
        if j >= 0:
            idx.get_file_logical_data(j)
        f.reads = []
        if ln is None:
            fld = idx.get_file_logical_data(i)
            want = exp[i][2]
        else:
            fld = idx.get_file_logical_data(i, off, ln)
            want = exp[i][2][off:off + ln]
        if fld.logical_data.bytes != want:
            return False
        if fld.lr_type != exp[i][1] or fld.lr_is_eflr != exp[i][0]:
            return False
        # the same fetch addressed by the index entry's position instead of its number
        if ln is None:
            fld2 = idx.get_file_logical_data_at_position(idx[i].position)
        else:
            fld2 = idx.get_file_logical_data_at_position(idx[i].position, off, ln)
        if fld2.logical_data.bytes != want or fld2.lr_type != exp[i][1] or fld2.lr_is_eflr != exp[i][0]:
            return False
        # ... and a short slice through both entry points (offset and length must both be honoured)
        for o_, l_ in ((1, 3), (0, 2), (5, 0)):
            if idx.get_file_logical_data(i, o_, l_).logical_data.bytes != exp[i][2][o_:o_ + l_]:
                return False
            if idx.get_file_logical_data_at_position(idx[i].position, o_, l_).logical_data.bytes != exp[i][2][o_:o_ + l_]:
                return False
        # bytes touched: only inside the visible records that hold record i
        spans = []
        for vr, sp, sl in layout[i][2]:
            vlen = (data[vr] << 8) | data[vr + 1]
            spans.append((vr, vr + vlen))
        for a, b in f.reads:
            ok = False
            for lo, hi in spans:
                if lo <= a and b <= hi:
                    ok = True
            if not ok:
                return False
    # one index object opened twice (and the stream not at its start the second time): one entry per record both times, same fetch
    f2 = SymFile(data)
    idx2 = pIndex.LogicalRecordIndex(f2)
    for _again in range(2):
        with idx2 as ix:
            if len(ix) != len(recs) or ix.visible_record_positions != [layout[k][0] for k in range(len(recs))]:
                return False
            if ix.get_file_logical_data(i).logical_data.bytes != exp[i][2]:
                return False
        f2.seek(3)
    return True


def _crosses_segment_boundary(recs, i, off, ln):
    """The known-finding class of C02: a non-negative length whose range [off, off+ln) spans more than one segment's data."""
    if ln is None or ln < 0:
        return False
    pos = 0
    for s in recs[i][2]:
        n = len(s['payload']) + (s['pad'] if s['encrypted'] else 0)
        if pos <= off < pos + n:
            return off + ln > pos + n and s is not recs[i][2][-1]
        pos += n
    return False


def index_two_segments(split: int, pad0: int, cs0: bool, enc0: bool, pad1: int, tl1: bool, vr1: bool) -> bool:
    """
    pre: 1 <= split <= 2
    pre: 0 <= pad0 <= 2 and 0 <= pad1 <= 2
    pre: PART < 0 or (split - 1) * 4 + (2 if vr1 else 0) + (1 if enc0 else 0) == PART
    post: _
    """
    recs = build(2, split, [(pad0, cs0, False, enc0, True), (pad1, False, tl1, False, vr1)], [7, 9])
    return _index_and_fetch(recs, 0, 0, None, -1)


def fetch_after_fetch(split: int, pad0: int, pad1: int, cs1: bool, vr1: bool, i: int, j: int) -> bool:
    """
    pre: 1 <= split <= 2
    pre: 0 <= pad0 <= 1 and 0 <= pad1 <= 1
    pre: 0 <= i <= 1 and -1 <= j <= 1
    pre: i < (1 if split == 2 else 2) and j < (1 if split == 2 else 2)
    pre: PART < 0 or (split - 1) * 4 + (2 if vr1 else 0) + (1 if cs1 else 0) == PART
    post: _
    """
    recs = build(2, split, [(pad0, False, True, False, True), (pad1, cs1, False, False, vr1)], [7, 9])
    return _index_and_fetch(recs, i, 0, None, j)


def fetch_slice_two_segments_q(split: int, pad0: int, pad1: int, vr1: bool, i: int, off: int, ln: int) -> bool:
    """
    pre: 1 <= split <= 2
    pre: 0 <= pad0 <= 1 and 0 <= pad1 <= 1
    pre: 0 <= i <= 1 and i < (1 if split == 2 else 2)
    pre: 0 <= off <= 13 and -1 <= ln <= 13
    pre: PART < 0 or (split - 1) * 8 + (4 if vr1 else 0) + pad0 * 2 + pad1 == PART
    post: _
    """
    return _fetch_slice(split, pad0, pad1, vr1, i, off, ln)


def fetch_slice_two_segments(split: int, pad0: int, pad1: int, vr1: bool, i: int, off: int, ln: int) -> bool:
    """
    pre: 1 <= split <= 2
    pre: 0 <= pad0 <= 1 and 0 <= pad1 <= 1
    pre: 0 <= i <= 1 and i < (1 if split == 2 else 2)
    pre: 0 <= off <= 24 and -1 <= ln <= 24
    pre: PART < 0 or (split - 1) * 8 + (4 if vr1 else 0) + pad0 * 2 + pad1 == PART
    post: _
    """
    return _fetch_slice(split, pad0, pad1, vr1, i, off, ln)


class _Pos:
    def __init__(self, vr, lrsh):
        self.vr_position, self.lrsh_position = vr, lrsh


def _fetch_slice(split, pad0, pad1, vr1, i, off, ln):
    split, pad0, pad1, vr1, i = mark.pick(split, 1, 2), mark.pick(pad0, 0, 1), mark.pick(pad1, 0, 1), mark.pickb(vr1), mark.pick(i, 0, 1)
    off, ln = mark.pick(off, 0, 24), mark.pick(ln, -1, 24)
    with mark.untraced():
        return _fetch_slice_c(split, pad0, pad1, vr1, i, off, ln)


def _fetch_slice_c(split, pad0, pad1, vr1, i, off, ln):
    recs = build(2, split, [(pad0, False, False, False, True), (pad1, True, False, False, vr1)], [7, 9])
    import os
    if 'get_file_logical_data_range_spans_segments' in os.environ.get('VERIF_EXCLUDE', '') and _crosses_segment_boundary(recs, i, off, ln):
        return True
    exp = R.expected(recs)
    data, layout = R.encode(recs)
    f = SymFile(data)
    # the index entries (positions) are the subject of index_entries; here the reader is driven with the reference positions
    fr = pFile.FileRead(f)
    fr._enter()
    f.reads = []
    got = fr.get_file_logical_data(_Pos(layout[i][0], layout[i][1]), off, ln).logical_data.bytes
    mark.hit()
    want = exp[i][2][off:] if ln < 0 else exp[i][2][off:off + ln]
    if got != want:
        return False
    spans = []
    for vr, sp, sl in layout[i][2]:
        spans.append((vr, vr + ((data[vr] << 8) | data[vr + 1])))
    for a, b in f.reads:
        ok = False
        for lo, hi in spans:
            if lo <= a and b <= hi:
                ok = True
        if not ok:
            return False
    return True


def fetch_slice_three_segments(pad0: int, pad1: int, cs1: bool, vr1: bool, vr2: bool, off: int, ln: int) -> bool:
    """
    pre: 0 <= pad0 <= 1 and 0 <= pad1 <= 2
    pre: 0 <= off <= 34 and -1 <= ln <= 12
    pre: PART < 0 or (4 if vr1 else 0) + (2 if vr2 else 0) + pad0 == PART
    post: _
    """
    # one record of THREE segments (a running position inside the record that is only right for the first two segments shows here)
    pad0, pad1, cs1, vr1, vr2 = mark.pick(pad0, 0, 1), mark.pick(pad1, 0, 2), mark.pickb(cs1), mark.pickb(vr1), mark.pickb(vr2)
    off, ln = mark.pick(off, 0, 34), mark.pick(ln, -1, 12)
    with mark.untraced():
        recs = build(3, 3, [(pad0, False, False, False, True), (pad1, cs1, False, False, vr1), (0, False, True, False, vr2)], [7, 9, 11])
        exp = R.expected(recs)
        data, layout = R.encode(recs)
        f = SymFile(data)
        fr = pFile.FileRead(f)
        fr._enter()
        got = fr.get_file_logical_data(_Pos(layout[0][0], layout[0][1]), off, ln).logical_data.bytes
        mark.hit()
        want = exp[0][2][off:] if ln < 0 else exp[0][2][off:off + ln]
        return got == want
