"""C04 CrossHair harnesses: RP66V1 frame arrays hold exactly the recorded values; sub-selection commutes; history independent."""
import logging
import os
logging.disable(logging.CRITICAL)
PART = int(os.environ.get('VERIF_PART', '-1'))
from engine import mark
from engine.symio import SymFile
from spec import rp66_file_ref as F
from spec import rp66_eflr_ref as E
from TotalDepth.common import Slice
from TotalDepth.RP66V1.core import LogicalFile

# channel name, rep code, units, dimensions
CHANNELS = [(b'DEPT', F.SLONG, b'm', [1]), (b'AAAA', E.USHORT, b'', [1, 2]), (b'BBBB', E.UNORM, b'mV', [1])]      # AAAA: rank 2 (count 2, first dimension 1)
CH2 = [(b'TIME', E.UNORM, b's', [1]), (b'CCCC', E.USHORT, b'', [1])]


def _vals(ftype, n):
    """model values of frame number n (1-based) of frame type ftype: list per channel of element lists."""
    if ftype == 0:
        return [[100000 - 250 * n], [(3 * n) % 256, (7 * n + 1) % 256], [1000 + 11 * n]]
    return [[500 + n], [(5 * n) % 256]]


def _frame_bytes(ftype, n):
    v = _vals(ftype, n)
    if ftype == 0:
        x = v[0][0] & 0xffffffff
        return bytes([(x >> 24) & 255, (x >> 16) & 255, (x >> 8) & 255, x & 255, v[1][0], v[1][1], v[2][0] >> 8, v[2][0] & 255])
    return bytes([v[0][0] >> 8, v[0][0] & 255, v[1][0]])


def _build(order, two_types, empty_at, vr_each, seg=0):
    """order: list of frame types (0/1) of the IFLRs in file order; empty_at: index of an IFLR written with no frame data (or -1);
    seg: how the frame records of the first type are laid out - 0 one segment, 1 two segments, 2 two segments each with a trailing length,
    3 two segments each with checksum and trailing length (both segments in one visible record)."""
    recs = [F.record(True, 0, F.file_header()), F.record(True, 1, F.origin()),
            F.record(True, 3, F.channel(CHANNELS + (CH2 if two_types else []))),
            F.record(True, 4, F.frame([(b'F0', [c[0] for c in CHANNELS])] + ([(b'F1', [c[0] for c in CH2])] if two_types else [])))]
    counts = [0, 0]
    model = [[], []]          # per frame type: list of (frame number, record index)
    for i, t in enumerate(order):
        counts[t] += 1
        if i == empty_at:
            recs.append(F.record(False, 0, F.iflr(b'F0' if t == 0 else b'F1', counts[t], b''), new_vr=vr_each))
            continue
        model[t].append((counts[t], len(recs)))
        payload = F.iflr(b'F0' if t == 0 else b'F1', counts[t], _frame_bytes(t, counts[t]))
        if seg and t == 0:
            recs.append(F.record_split(False, 0, payload, 12, trailing=seg >= 2, checksum=seg == 3, new_vr=vr_each))
        else:
            recs.append(F.record(False, 0, payload, new_vr=vr_each))
    data, layout = F.build(recs)
    return data, layout, model


def _selector(kind, a, b, c):
    if kind == 0:
        return None
    if kind == 1:
        return Slice.Slice(a, b, c)
    if kind == 3:
        return Slice.Slice(None, None, -c)      # reverse order
    if kind == 4:
        return Slice.Slice(a, b, -c)
    return Slice.Sample(c)


def _expect_indices(kind, a, b, c, n):
    if kind == 0:
        return list(range(n))
    if kind == 1:
        return list(range(n))[a:b:c]
    if kind == 3:
        return list(range(n))[::-c]
    if kind == 4:
        return list(range(n))[a:b:-c]
    # Sample(c): decided by C15; here only 'what populate_frame_array was given'
    return Slice.Sample(c).indices(n)


def _check_population(lf, fa, ftype, frames, idxs, chosen):
    """frames: model list [(frame number, record index)] of this type; idxs: selected indices; chosen: set of channel idents or None."""
    import numpy as np
    dtypes = {F.SLONG: np.int32, E.USHORT: np.uint8, E.UNORM: np.uint16}
    chdefs = CHANNELS if ftype == 0 else CH2
    for c, ch in enumerate(fa.channels):
        name, rc, units, dims = chdefs[c]
        selected = chosen is None or c == 0 or ch.ident in chosen
        if not selected:
            if len(ch.array) != 0:
                return False
            continue
        if ch.array.dtype != dtypes[rc] or ch.array.shape != (len(idxs),) + tuple(dims):
            return False
        for row, i in enumerate(idxs):
            want = _vals(ftype, frames[i][0])[c]
            if [int(v) for v in ch.array[row].flatten()] != want:
                return False
    return True


def _populate(order, two_types, empty_at, vr_each, kind, a, b, c, m1, m2, hist):
    data, layout, model = _build(order, two_types, empty_at, vr_each, (a + c + (1 if m2 else 0)) % 4)
    with LogicalFile.LogicalIndex(SymFile(data)) as li:
        mark.hit()
        if len(li) != 1:
            return False
        lf = li.logical_files[0]
        if lf.log_pass is None or len(lf.log_pass.frame_arrays) != (2 if two_types else 1):
            return False
        for ftype, fa in enumerate(lf.log_pass.frame_arrays):
            frames = model[ftype]
            # index: one entry per non-empty IFLR of this type with its frame number, X and position
            xa = lf.iflr_position_map.get(fa.ident)
            if not frames:
                if xa is not None and len(xa) != 0:
                    return False
                continue
            if xa is None or len(xa) != len(frames) or lf.num_frames(fa) != len(frames):
                return False
            for k, (fno, ri) in enumerate(frames):
                ref = xa[k]
                if ref.frame_number != fno or ref.x_axis != _vals(ftype, fno)[0][0]:
                    return False
                if (ref.logical_record_position.vr_position, ref.logical_record_position.lrsh_position) != (layout[ri][0], layout[ri][1]):
                    return False
            chdefs = CHANNELS if ftype == 0 else CH2
            chosen = None
            if not (m1 and m2):
                chosen = {chdefs[i][0].decode() for i, m in ((1, m1), (2, m2)) if m and i < len(chdefs)}
            if hist:
                lf.populate_frame_array(fa, Slice.Slice(1, None, 2), {chdefs[-1][0].decode()})      # an earlier, different population
            n = lf.populate_frame_array(fa, _selector(kind, a, b, c), chosen)
            idxs = _expect_indices(kind, a, b, c, len(frames))
            if n != len(idxs):
                return False
            if not _check_population(lf, fa, ftype, frames, idxs, chosen):
                return False
    return True


ORDERS = [[0], [0, 0, 0], [0, 1, 0, 1, 0], [1, 0, 0, 1, 0, 0], [0, 0, 0, 0]]


def populate(order: int, empty_at: int, vr_each: bool, kind: int, a: int, b: int, c: int, m1: bool, m2: bool, hist: bool) -> bool:
    """
    pre: 0 <= order <= 4 and empty_at in (-1, 1)
    pre: 0 <= kind <= 4 and -2 <= a <= 3 and b in (-2, 0, 2, 3, 5) and 1 <= c <= 3
    pre: kind in (1, 4) or (a == 0 and b == 0)
    pre: kind != 0 or c == 1
    pre: vr_each == (order == 2)
    pre: PART < 0 or order * 10 + kind * 2 + (1 if hist else 0) == PART
    post: _
    """
    order, empty_at, kind = mark.pick(order, 0, 4), mark.pick_from(empty_at, (-1, 1)), mark.pick(kind, 0, 4)
    a, b, c = mark.pick(a, -2, 3), mark.pick_from(b, (-2, 0, 2, 3, 5)), mark.pick(c, 1, 3)
    vr_each, m1, m2, hist = mark.pickb(vr_each), mark.pickb(m1), mark.pickb(m2), mark.pickb(hist)
    o = ORDERS[order]
    if empty_at >= len(o):
        empty_at = -1
    with mark.untraced():
        return _populate(o, 1 in o, empty_at, vr_each, kind, a, b, c, m1, m2, hist)


def populate_full(order: int, empty_at: int, vr_each: bool, kind: int, a: int, b: int, c: int, m1: bool, m2: bool, hist: bool) -> bool:
    """
    pre: 0 <= order <= 4 and -1 <= empty_at <= 2
    pre: 0 <= kind <= 4 and -2 <= a <= 3 and -2 <= b <= 5 and 1 <= c <= 3
    pre: kind in (1, 4) or (a == 0 and b == 0)
    pre: kind != 0 or c == 1
    pre: PART < 0 or order * 20 + kind * 4 + (2 if hist else 0) + (1 if vr_each else 0) == PART
    post: _
    """
    order, empty_at, kind = mark.pick(order, 0, 4), mark.pick(empty_at, -1, 2), mark.pick(kind, 0, 4)
    a, b, c = mark.pick(a, -2, 3), mark.pick(b, -2, 5), mark.pick(c, 1, 3)
    vr_each, m1, m2, hist = mark.pickb(vr_each), mark.pickb(m1), mark.pickb(m2), mark.pickb(hist)
    o = ORDERS[order]
    if empty_at >= len(o):
        empty_at = -1
    with mark.untraced():
        return _populate(o, 1 in o, empty_at, vr_each, kind, a, b, c, m1, m2, hist)


# ---------------------------------------------------------------------------------------------------- symbolic data bytes through read / read_partial

from engine.fakenp import FakeNp
from TotalDepth.common import LogPass as CLP
from TotalDepth.RP66V1.core import LogPass as RLP, File, RepCode


def _mk():
    fa = RLP.RP66V1FrameArray(RepCode.ObjectName(0, 0, b'F'), b'')
    for i, (rc, dims) in enumerate(((15, [1]), (16, [1]), (15, [2]))):       # USHORT, UNORM, USHORT x 2
        fa.append(RLP.RP66V1FrameChannel(RepCode.ObjectName(0, 0, bytes([65 + i])), b'', b'', dims, 'x', rc))
    return fa


def read_partial_symbolic(data: bytes, m1: bool, m2: bool, full: bool) -> bool:
    """
    pre: len(data) == 10
    post: _
    """
    real = CLP.np
    CLP.np = FakeNp
    try:
        mask = [True, m1 or full, m2 or full]
        fa = _mk()
        chans = {chr(65 + i) for i, m in enumerate(mask) if m}
        if full:
            fa.init_arrays(2)
        else:
            fa.init_arrays_partial(2, chans)
        for fr in range(2):
            ld = File.LogicalData(data[fr * 5:(fr + 1) * 5])
            if full:
                fa.read(ld, fr)
            else:
                fa.read_partial(ld, fr, chans)
            if ld.remain != 0:
                return False
        mark.hit()
        for fr in range(2):
            d = data[fr * 5:(fr + 1) * 5]
            if fa.channels[0].array[(fr, 0)] != d[0]:
                return False
            if mask[1]:
                if fa.channels[1].array[(fr, 0)] != d[1] * 256 + d[2]:
                    return False
            elif len(fa.channels[1].array) != 0:
                return False
            if mask[2]:
                if fa.channels[2].array[(fr, 0)] != d[3] or fa.channels[2].array[(fr, 1)] != d[4]:
                    return False
            elif len(fa.channels[2].array) != 0:
                return False
        return True
    finally:
        CLP.np = real
