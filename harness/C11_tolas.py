"""C11 CrossHair harnesses: conversion of RP66V1 / LIS / BIT files to LAS keeps exactly the selected frames, channels and values."""
import io
import logging
import os
import shutil
import tempfile
logging.disable(logging.CRITICAL)
PART = int(os.environ.get('VERIF_PART', '-1'))
from engine import mark
from TotalDepth.common import Slice
from TotalDepth.LAS.core import LASRead

EXCL = lambda k: k in os.environ.get('VERIF_EXCLUDE', '')


def _selector(kind, a, b, c):
    if kind == 0:
        return Slice.Slice(None, None, None)
    if kind == 1:
        return Slice.Slice(a, b, c)
    return Slice.Sample(c)


def _indices(kind, a, b, c, n):
    if kind == 0:
        return list(range(n))
    if kind == 1:
        return list(range(n))[a:b:c]
    return Slice.Sample(c).indices(n)      # which frames a sample picks is C15


def _read_las(path):
    with open(path) as f:
        return LASRead.LASRead(io.StringIO(f.read()), 'id')


def _wsd(las, names):
    for n in names:
        try:
            return las['W'][n].valu
        except KeyError:
            pass
    return None


def _check_las(las, xs, cols, names, sel, tol, stop_key, step_key, xs_well=None, strt_key='-', skip_x=()):
    """xs: X of every source frame; cols: source values per written channel (list of lists over all frames); sel: selected indices."""
    import numpy as np
    fr = las.frame_array
    if fr is None:
        return len(sel) == 0
    if [c.ident.strip() for c in fr.channels] != names:
        return False
    if las.number_of_frames() != len(sel):
        return False
    for ci, col in enumerate([xs] + cols):
        got = [float(v) for v in np.ma.getdata(fr.channels[ci].array).flatten()]
        want = [float(col[i]) for i in sel]
        for k_, (g, w) in enumerate(zip(got, want)):
            if ci == 0 and k_ in skip_x:
                continue
            if abs(g - w) > tol:
                return False
    strt, stop, step = _wsd(las, ['STRT']), _wsd(las, ['STOP']), _wsd(las, ['STEP'])
    if xs_well is not None:
        xs = xs_well
    if not EXCL(strt_key) and (strt is None or abs(float(strt) - xs[sel[0]]) > tol):
        return False
    if not EXCL(stop_key):
        if stop is None or abs(float(stop) - xs[sel[-1]]) > tol:
            return False
    if len(sel) > 1 and not EXCL(step_key) and not EXCL(stop_key):
        mean = (xs[sel[-1]] - xs[sel[0]]) / (len(sel) - 1)
        if step is None or abs(float(step) - mean) > tol:
            return False
    return True


# ---------------------------------------------------------------------------------------------------- RP66V1

def _rp66(order, kind, a, b, c, m1, m2, again=False):
    import C04_frames as H4
    from TotalDepth.RP66V1 import ToLAS
    o = H4.ORDERS[order]
    data, layout, model = H4._build(o, 1 in o, -1, False)
    for ftype in range(2 if 1 in o else 1):
        if len(_indices(kind, a, b, c, len(model[ftype]))) == 0:
            return True         # a selector that selects no frame of a log pass: outside the claim (the converter reports a failure)
    tmp = tempfile.mkdtemp(prefix='verif_c11_')
    try:
        pin = os.path.join(tmp, 'in.dlis')
        with open(pin, 'wb') as f:
            f.write(data)
        chans = set()
        if not (m1 and m2):
            chans = {n for n, m in (('AAAA', m1), ('BBBB', m2)) if m}
        ntypes = 2 if 1 in o else 1
        if again:
            # the same index converted twice: every frame first, then the selection (one index serves several conversions)
            from TotalDepth.RP66V1.core import LogicalFile
            from TotalDepth.common import Slice as CS
            with LogicalFile.LogicalIndex(pin) as li:
                ToLAS.write_logical_index_to_las(li, 'first', os.path.join(tmp, 'out0', 'x'), CS.Slice(), set(), 16, '.3f')
                written = ToLAS.write_logical_index_to_las(li, 'first', os.path.join(tmp, 'out', 'x'), _selector(kind, a, b, c), set(chans), 16, '.3f')
            mark.hit()
            if len(written) != ntypes:
                return False
        else:
            res = ToLAS.single_rp66v1_file_to_las(pin, 'first', os.path.join(tmp, 'out', 'x'), _selector(kind, a, b, c), set(chans), 16, '.3f')
            mark.hit()
            if res.exception or res.ignored or res.las_count != ntypes:
                return False
        outs = sorted(os.listdir(os.path.join(tmp, 'out')))
        if len(outs) != ntypes:
            return False
        for ftype in range(ntypes):
            frames = model[ftype]
            sel = _indices(kind, a, b, c, len(frames))
            name = 'F%d' % ftype
            path = [p for p in outs if name in p]
            if len(path) != 1:
                return False
            las = _read_las(os.path.join(tmp, 'out', path[0]))
            chdefs = H4.CHANNELS if ftype == 0 else H4.CH2
            vals = [H4._vals(ftype, fno) for fno, ri in frames]
            xs = [v[0][0] for v in vals]
            want_ch = [i for i in range(1, len(chdefs)) if (not chans) or chdefs[i][0].decode() in chans]
            names = [chdefs[0][0].decode()] + [chdefs[i][0].decode() for i in want_ch]
            cols = [[v[i][0] for v in vals] for i in want_ch]
            if len(sel) == 0:
                continue
            if not _check_las(las, xs, cols, names, sel, 0.0005, 'rp66v1_tolas_stop_from_slice_last', 'rp66v1_tolas_stop_from_slice_last'):
                return False
        return True
    finally:
        shutil.rmtree(tmp, ignore_errors=True)


def rp66v1_to_las(order: int, kind: int, a: int, b: int, c: int, m1: bool, m2: bool, again: bool = False) -> bool:
    """
    pre: 0 <= order <= 4 and 0 <= kind <= 2 and -2 <= a <= 2 and b in (-1, 2, 3, 5) and 1 <= c <= 3
    pre: kind == 1 or (a == 0 and b == 2)
    pre: kind != 0 or c == 1
    pre: PART < 0 or order * 3 + kind == PART
    post: _
    """
    order, kind, a, b, c = mark.pick(order, 0, 4), mark.pick(kind, 0, 2), mark.pick(a, -2, 2), mark.pick_from(b, (-1, 2, 3, 5)), mark.pick(c, 1, 3)
    m1, m2, again = mark.pickb(m1), mark.pickb(m2), mark.pickb(again)
    with mark.untraced():
        return _rp66(order, kind, a, b, c, m1, m2, again)


# ---------------------------------------------------------------------------------------------------- LIS

def _lis(f1, indirect, tif, kind, a, b, c):
    import C06_logpass as H6
    from TotalDepth.LIS import ToLAS
    fpr = [2, f1, 1]
    data, pos, kinds, model = H6._build(fpr, indirect, tif, True, None)
    if len(_indices(kind, a, b, c, len(model))) == 0:
        return True
    if EXCL('lis_bit_tolas_slice_drops_last_frames'):
        s_ = _selector(kind, a, b, c)
        if len(list(range(len(model)))[s_.first(len(model)):s_.last(len(model)) + 1:s_.step(len(model))]) == 0:
            return True         # known: nothing is written at all
    tmp = tempfile.mkdtemp(prefix='verif_c11_')
    try:
        pin = os.path.join(tmp, 'in.lis')
        with open(pin, 'wb') as f:
            f.write(data)
        res = ToLAS.single_lis_file_to_las(pin, 'first', os.path.join(tmp, 'out', 'x'), _selector(kind, a, b, c), set(), 16, '.3f')
        mark.hit()
        if res.exception or res.ignored:
            return False
        outs = sorted(os.listdir(os.path.join(tmp, 'out')))
        if len(outs) != 1 or res.las_count != 1:
            return False
        las = _read_las(os.path.join(tmp, 'out', outs[0]))
        sel = _indices(kind, a, b, c, len(model))
        if len(sel) == 0:
            return True
        # optical units: an implied X in .1IN is written in feet; the recorded DEPT channel is already in feet
        xs = [float(row[0]) for row in model]
        xs_well = None
        skip_x = ()
        if indirect and EXCL('lis_tolas_implied_x_after_record_boundary'):
            skip_x = tuple(i for i in range(len(sel)) if H6._known_x_var(sel, fpr, i))
        if indirect and EXCL('lis_tolas_indirect_x_units'):
            # known: with an implied X the data rows are in the recorded units (.1IN) but STRT/STOP/STEP are in optical units (feet)
            xs_well = [row[0] / 120.0 for row in model]
        names = [('X' if indirect else 'DEPT'), 'GR', 'SP']
        cols = [[row[1] for row in model], [row[2] for row in model]]
        if EXCL('lis_bit_tolas_slice_drops_last_frames'):
            # known: the frames written are first : last()+1 : step
            n = len(model)
            s = _selector(kind, a, b, c)
            sel = list(range(n))[s.first(n):s.last(n) + 1:s.step(n)]
            if len(sel) == 0:
                return True
            if skip_x != ():
                skip_x = tuple(i for i in range(len(sel)) if H6._known_x_var(sel, fpr, i))
        return _check_las(las, xs, cols, names, sel, 0.0006, 'lis_tolas_well_section_ignores_slice', 'lis_tolas_well_section_ignores_slice', xs_well, 'lis_tolas_well_section_ignores_slice', skip_x)
    finally:
        shutil.rmtree(tmp, ignore_errors=True)


def lis_to_las(f1: int, indirect: bool, tif: bool, kind: int, a: int, b: int, c: int) -> bool:
    """
    pre: 2 <= f1 <= 3 and 0 <= kind <= 2 and -2 <= a <= 2 and b in (-1, 2, 4, 6) and 1 <= c <= 3
    pre: kind == 1 or (a == 0 and b == 2)
    pre: kind != 0 or c == 1
    pre: PART < 0 or (6 if indirect else 0) + (3 if tif else 0) + kind == PART
    post: _
    """
    f1, kind, a, b, c = mark.pick(f1, 2, 3), mark.pick(kind, 0, 2), mark.pick(a, -2, 2), mark.pick_from(b, (-1, 2, 4, 6)), mark.pick(c, 1, 3)
    indirect, tif = mark.pickb(indirect), mark.pickb(tif)
    with mark.untraced():
        return _lis(f1, indirect, tif, kind, a, b, c)


# ---------------------------------------------------------------------------------------------------- BIT

def _bit(nch, f0, f1, inc, kind, a, b, c, m1):
    import C13_bit as H13
    from TotalDepth.BIT import ToLAS, ReadBIT
    H13.use_fake(False)
    frames = [f0, f1]
    passes = [(nch, inc, [H13.data_block(k, nch, frames[k], 9 - 2 * k) for k in range(2)])]
    data = H13.build_file(passes)
    if len(_indices(kind, a, b, c, f0 + f1)) == 0:
        return True
    if EXCL('lis_bit_tolas_slice_drops_last_frames') and kind:
        s_ = _selector(kind, a, b, c)
        if len(list(range(f0 + f1))[s_.first(f0 + f1):s_.last(f0 + f1) + 1:s_.step(f0 + f1)]) == 0:
            return True         # known: nothing is written at all (and the conversion fails)
    tmp = tempfile.mkdtemp(prefix='verif_c11_')
    try:
        pin = os.path.join(tmp, 'in.bit')
        with open(pin, 'wb') as f:
            f.write(data)
        chans = {'BBB '} if (m1 and nch >= 2) else set()
        res = ToLAS.single_bit_path_to_las_path(pin, 'first', os.path.join(tmp, 'out', 'x'), _selector(kind, a, b, c) if kind else None, set(chans), 16, '.3f')
        mark.hit()
        if res.exception or res.ignored:
            return False
        outs = sorted(os.listdir(os.path.join(tmp, 'out')))
        if len(outs) != 1 or res.las_count != 1:
            return False
        n = f0 + f1
        sel = _indices(kind, a, b, c, n)
        if len(sel) == 0:
            return True
        if EXCL('lis_bit_tolas_slice_drops_last_frames') and kind:
            s = _selector(kind, a, b, c)
            sel = list(range(n))[s.first(n):s.last(n) + 1:s.step(n)]
            if len(sel) == 0:
                return True
        las = _read_las(os.path.join(tmp, 'out', outs[0]))
        xs = [1000.0 + 0.5 * i if inc else 1000.0 - 0.5 * i for i in range(n)]
        exp = H13._expected(nch, frames, [9, 7])
        want = [c_ for c_ in range(nch) if (not chans) or H13.NAMES[c_].decode() in chans]
        names = ['X'] + [H13.NAMES[c_].decode().strip() for c_ in want]
        cols = [exp[c_] for c_ in want]
        return _check_las(las, xs, cols, names, sel, 0.0006, 'bit_tolas_step_mnemonic', 'bit_tolas_step_mnemonic')
    finally:
        shutil.rmtree(tmp, ignore_errors=True)


def bit_to_las(nch: int, f0: int, f1: int, inc: bool, kind: int, a: int, b: int, c: int, m1: bool) -> bool:
    """
    pre: 1 <= nch <= 2 and 1 <= f0 <= 3 and 1 <= f1 <= 2 and 0 <= kind <= 2 and -2 <= a <= 2 and b in (-1, 2, 3, 5) and 1 <= c <= 3
    pre: kind == 1 or (a == 0 and b == 2)
    pre: kind != 0 or c == 1
    pre: PART < 0 or (6 if inc else 0) + (3 if nch == 2 else 0) + kind == PART
    post: _
    """
    nch, f0, f1, kind = mark.pick(nch, 1, 2), mark.pick(f0, 1, 3), mark.pick(f1, 1, 2), mark.pick(kind, 0, 2)
    a, b, c = mark.pick(a, -2, 2), mark.pick_from(b, (-1, 2, 3, 5)), mark.pick(c, 1, 3)
    inc, m1 = mark.pickb(inc), mark.pickb(m1)
    with mark.untraced():
        return _bit(nch, f0, f1, inc, kind, a, b, c, m1)
