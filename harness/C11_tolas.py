"""C11 CrossHair harnesses: conversion of RP66V1 / LIS / BIT files to LAS keeps exactly the selected frames, channels and values."""
import io
import logging
import os
import shutil
import tempfile
logging.disable(logging.CRITICAL)
PART = int(os.environ.get('VERIF_PART', '-1'))
from engine import mark
from TotalDepth.common import Slice
from TotalDepth.LAS.core import LASRead

EXCL = lambda k: k in os.environ.get('VERIF_EXCLUDE', '')


def _selector(kind, a, b, c):
    if kind == 0:
        return Slice.Slice(None, None, None)
    if kind == 1:
        return Slice.Slice(a, b, c)
    if kind == 3:
        return Slice.Slice(None, None, -c)      # reverse order
    return Slice.Sample(c)


def _indices(kind, a, b, c, n):
    if kind == 0:
        return list(range(n))
    if kind == 1:
        return list(range(n))[a:b:c]
    if kind == 3:
        return list(range(n))[::-c]
    return Slice.Sample(c).indices(n)      # which frames a sample picks is C15


def _read_las(path):
    with open(path) as f:
        return LASRead.LASRead(io.StringIO(f.read()), 'id')


def _wsd(las, names):
    for n in names:
        try:
            return las['W'][n].valu
        except KeyError:
            pass
    return None


def _check_las(las, xs, cols, names, sel, tol, well, step_mnems=('STEP',), x_rows=None):
    """xs: X of every source frame; cols: source values per written channel (list of lists over all frames); sel: selected indices;
    well: the expected (STRT, STOP, STEP) numbers - what the property demands, or, for a listed finding, EXACTLY what that finding is
    documented to produce instead (never 'anything'); an entry None means that line is not decided (STEP of a single row)."""
    import numpy as np
    fr = las.frame_array
    if fr is None:
        return len(sel) == 0
    if [c.ident.strip() for c in fr.channels] != names:
        return False
    if las.number_of_frames() != len(sel):
        return False
    for ci, col in enumerate([xs] + cols):
        got = [float(v) for v in np.ma.getdata(fr.channels[ci].array).flatten()]
        want = [float(col[i]) for i in sel]
        if ci == 0 and x_rows is not None:
            want = [float(v) for v in x_rows]      # a listed finding that changes the X column, stated exactly
        for g, w in zip(got, want):
            if abs(g - w) > tol:
                return False
    for mnems, want in ((['STRT'], well[0]), (['STOP'], well[1]), (list(step_mnems), well[2])):
        if want is None:
            continue
        got = _wsd(las, mnems)
        if got is None or abs(float(got) - want) > tol:
            return False
    return True


def _known_written(kind, a, b, c, n):
    """The frames LIS / BIT ToLAS write today (known finding lis_bit_tolas_slice_drops_last_frames): first : last() + 1 : step with the
    documented first / last / step."""
    first, step = _known_first_step(kind, a, b, c, n)
    return list(range(n))[first:_known_last(kind, a, b, c, n) + 1:step]


def _well_strict(xs, sel):
    """first X, last X and mean spacing of the rows written."""
    return (xs[sel[0]], xs[sel[-1]], (xs[sel[-1]] - xs[sel[0]]) / (len(sel) - 1) if len(sel) > 1 else None)


def _known_first_step(kind, a, b, c, n):
    """first() and step() of the selectors as documented (Python slice semantics; Sample: step n // size, or 1)."""
    if kind == 0:
        return 0, 1
    if kind in (1, 3):
        start, stop, step = (slice(a, b, c) if kind == 1 else slice(None, None, -c)).indices(n)
        return start, step
    return 0, (1 if c >= n else n // c)


def _known_last(kind, a, b, c, n):
    """The index Slice.last / Sample.last return today (known finding slice_last_not_last_selected), written out from its description."""
    if kind == 0:
        return n - 1
    if kind in (1, 3):
        start, stop, step = (slice(a, b, c) if kind == 1 else slice(None, None, -c)).indices(n)
        return n - 1 if n < stop else step * (stop // step) - 1
    return n - 1 if c >= n else n - c


# ---------------------------------------------------------------------------------------------------- RP66V1

def _rp66(order, kind, a, b, c, m1, m2, again=False):
    import C04_frames as H4
    from TotalDepth.RP66V1 import ToLAS
    o = H4.ORDERS[order]
    data, layout, model = H4._build(o, 1 in o, -1, False)
    for ftype in range(2 if 1 in o else 1):
        if len(_indices(kind, a, b, c, len(model[ftype]))) == 0:
            return True         # a selector that selects no frame of a log pass: outside the claim (the converter reports a failure)
    if EXCL('rp66v1_tolas_stop_from_slice_last'):
        # the documented last-index formula can name a frame that does not exist (e.g. one frame, reverse order: index -2): the lookup of STOP
        # then fails and so does the conversion - part of the listed finding, nothing further to decide for that case
        for ftype in range(2 if 1 in o else 1):
            nfr = len(model[ftype])
            kl = _known_last(kind, a, b, c, nfr)
            if not (-nfr <= kl < nfr):
                return True
    tmp = tempfile.mkdtemp(prefix='verif_c11_')
    try:
        pin = os.path.join(tmp, 'in.dlis')
        with open(pin, 'wb') as f:
            f.write(data)
        chans = set()
        if not (m1 and m2):
            chans = {n for n, m in (('AAAA', m1), ('BBBB', m2)) if m}
        ntypes = 2 if 1 in o else 1
        if again:
            # the same index converted twice: every frame first, then the selection (one index serves several conversions)
            from TotalDepth.RP66V1.core import LogicalFile
            from TotalDepth.common import Slice as CS
            with LogicalFile.LogicalIndex(pin) as li:
                ToLAS.write_logical_index_to_las(li, 'first', os.path.join(tmp, 'out0', 'x'), CS.Slice(), set(), 16, '.3f')
                written = ToLAS.write_logical_index_to_las(li, 'first', os.path.join(tmp, 'out', 'x'), _selector(kind, a, b, c), set(chans), 16, '.3f')
            mark.hit()
            if len(written) != ntypes:
                return False
        else:
            res = ToLAS.single_rp66v1_file_to_las(pin, 'first', os.path.join(tmp, 'out', 'x'), _selector(kind, a, b, c), set(chans), 16, '.3f')
            mark.hit()
            if res.exception or res.ignored or res.las_count != ntypes:
                return False
        outs = sorted(os.listdir(os.path.join(tmp, 'out')))
        if len(outs) != ntypes:
            return False
        for ftype in range(ntypes):
            frames = model[ftype]
            sel = _indices(kind, a, b, c, len(frames))
            name = 'F%d' % ftype
            path = [p for p in outs if name in p]
            if len(path) != 1:
                return False
            las = _read_las(os.path.join(tmp, 'out', path[0]))
            chdefs = H4.CHANNELS if ftype == 0 else H4.CH2
            vals = [H4._vals(ftype, fno) for fno, ri in frames]
            xs = [v[0][0] for v in vals]
            want_ch = [i for i in range(1, len(chdefs)) if (not chans) or chdefs[i][0].decode() in chans]
            names = [chdefs[0][0].decode()] + [chdefs[i][0].decode() for i in want_ch]
            cols = [[v[i][0] for v in vals] for i in want_ch]
            if len(sel) == 0:
                continue
            well = _well_strict(xs, sel)
            if EXCL('rp66v1_tolas_stop_from_slice_last'):
                # listed finding, tolerated exactly: STOP is the X of the frame the documented (wrong) last-index formula names, STEP follows from it
                kl = _known_last(kind, a, b, c, len(frames))
                # (a negative index counts from the end, as the list lookup in the converter does)
                well = (xs[sel[0]], xs[kl], (xs[kl] - xs[sel[0]]) / (len(sel) - 1) if len(sel) > 1 else None)
            if not _check_las(las, xs, cols, names, sel, 0.0005, well):
                return False
        return True
    finally:
        shutil.rmtree(tmp, ignore_errors=True)


def rp66v1_to_las(order: int, kind: int, a: int, b: int, c: int, m1: bool, m2: bool, again: bool = False) -> bool:
    """
    pre: 0 <= order <= 4 and 0 <= kind <= 3 and -2 <= a <= 2 and b in (-1, 2, 3, 5) and 1 <= c <= 3
    pre: kind == 1 or (a == 0 and b == 2)
    pre: kind != 0 or c == 1
    pre: PART < 0 or order * 4 + kind == PART
    post: _
    """
    order, kind, a, b, c = mark.pick(order, 0, 4), mark.pick(kind, 0, 3), mark.pick(a, -2, 2), mark.pick_from(b, (-1, 2, 3, 5)), mark.pick(c, 1, 3)
    m1, m2, again = mark.pickb(m1), mark.pickb(m2), mark.pickb(again)
    with mark.untraced():
        return _rp66(order, kind, a, b, c, m1, m2, again)


# ---------------------------------------------------------------------------------------------------- LIS

def _lis(f1, indirect, tif, kind, a, b, c):
    import C06_logpass as H6
    from TotalDepth.LIS import ToLAS
    fpr = [2, f1, 1]
    data, pos, kinds, model = H6._build(fpr, indirect, tif, True, None, 4 if (f1 + c) % 2 == 0 else 0)
    if len(_indices(kind, a, b, c, len(model))) == 0:
        return True
    if EXCL('lis_bit_tolas_slice_drops_last_frames'):
        if len(_known_written(kind, a, b, c, len(model))) == 0:
            return True         # known: nothing is written at all
    tmp = tempfile.mkdtemp(prefix='verif_c11_')
    try:
        pin = os.path.join(tmp, 'in.lis')
        with open(pin, 'wb') as f:
            f.write(data)
        res = ToLAS.single_lis_file_to_las(pin, 'first', os.path.join(tmp, 'out', 'x'), _selector(kind, a, b, c), set(), 16, '.3f')
        mark.hit()
        if res.exception or res.ignored:
            return False
        outs = sorted(os.listdir(os.path.join(tmp, 'out')))
        if len(outs) != 1 or res.las_count != 1:
            return False
        las = _read_las(os.path.join(tmp, 'out', outs[0]))
        sel = _indices(kind, a, b, c, len(model))
        if len(sel) == 0:
            return True
        # optical units: an implied X in .1IN is written in feet; the recorded DEPT channel is already in feet
        xs = [float(row[0]) for row in model]
        xs_well = None
        known_x = indirect and EXCL('lis_tolas_implied_x_after_record_boundary')
        if indirect and EXCL('lis_tolas_indirect_x_units'):
            # known: with an implied X the data rows are in the recorded units (.1IN) but STRT/STOP/STEP are in optical units (feet)
            xs_well = [row[0] / 120.0 for row in model]
        names = [('X' if indirect else 'DEPT'), 'GR', 'SP']
        cols = [[row[1] for row in model], [row[2] for row in model]]
        if EXCL('lis_bit_tolas_slice_drops_last_frames'):
            # known: the frames written are first : last()+1 : step
            sel = _known_written(kind, a, b, c, len(model))
            if len(sel) == 0:
                return True
        xw = xs_well if xs_well is not None else xs
        well = _well_strict(xw, sel)
        if EXCL('lis_tolas_well_section_ignores_slice'):
            # listed finding, tolerated exactly: STRT / STOP are the first / last X of the WHOLE log pass, STEP the frame spacing times the selector's step
            well = (xw[0], xw[-1], (xw[1] - xw[0]) * _known_first_step(kind, a, b, c, len(model))[1])
        # listed finding (inherited from C06), tolerated exactly: the implied X column the documented extrapolation yields
        x_rows = H6._known_x_values(sel, fpr, lambda g_: xs[g_], xs[1] - xs[0]) if known_x else None
        return _check_las(las, xs, cols, names, sel, 0.0006, well, x_rows=x_rows)
    finally:
        shutil.rmtree(tmp, ignore_errors=True)


def lis_to_las(f1: int, indirect: bool, tif: bool, kind: int, a: int, b: int, c: int) -> bool:
    """
    pre: 2 <= f1 <= 3 and 0 <= kind <= 2 and -2 <= a <= 2 and b in (-1, 2, 4, 6) and 1 <= c <= 3
    pre: kind == 1 or (a == 0 and b == 2)
    pre: kind != 0 or c == 1
    pre: PART < 0 or (6 if indirect else 0) + (3 if tif else 0) + kind == PART
    post: _
    """
    f1, kind, a, b, c = mark.pick(f1, 2, 3), mark.pick(kind, 0, 2), mark.pick(a, -2, 2), mark.pick_from(b, (-1, 2, 4, 6)), mark.pick(c, 1, 3)
    indirect, tif = mark.pickb(indirect), mark.pickb(tif)
    with mark.untraced():
        return _lis(f1, indirect, tif, kind, a, b, c)


# ---------------------------------------------------------------------------------------------------- BIT

def _bit(nch, f0, f1, inc, kind, a, b, c, m1):
    import C13_bit as H13
    from TotalDepth.BIT import ToLAS, ReadBIT
    H13.use_fake(False)
    frames = [f0, f1]
    passes = [(nch, inc, [H13.data_block(k, nch, frames[k], 9 - 2 * k) for k in range(2)])]
    data = H13.build_file(passes)
    if len(_indices(kind, a, b, c, f0 + f1)) == 0:
        return True
    if EXCL('lis_bit_tolas_slice_drops_last_frames') and kind:
        if len(_known_written(kind, a, b, c, f0 + f1)) == 0:
            return True         # known: nothing is written at all (and the conversion fails)
    tmp = tempfile.mkdtemp(prefix='verif_c11_')
    try:
        pin = os.path.join(tmp, 'in.bit')
        with open(pin, 'wb') as f:
            f.write(data)
        chans = {'BBB '} if (m1 and nch >= 2) else set()
        res = ToLAS.single_bit_path_to_las_path(pin, 'first', os.path.join(tmp, 'out', 'x'), _selector(kind, a, b, c) if kind else None, set(chans), 16, '.3f')
        mark.hit()
        if res.exception or res.ignored:
            return False
        outs = sorted(os.listdir(os.path.join(tmp, 'out')))
        if len(outs) != 1 or res.las_count != 1:
            return False
        n = f0 + f1
        sel = _indices(kind, a, b, c, n)
        if len(sel) == 0:
            return True
        if EXCL('lis_bit_tolas_slice_drops_last_frames') and kind:
            sel = _known_written(kind, a, b, c, n)
            if len(sel) == 0:
                return True
        las = _read_las(os.path.join(tmp, 'out', outs[0]))
        xs = [1000.0 + 0.5 * i if inc else 1000.0 - 0.5 * i for i in range(n)]
        exp = H13._expected(nch, frames, [9, 7])
        want = [c_ for c_ in range(nch) if (not chans) or H13.NAMES[c_].decode() in chans]
        names = ['X'] + [H13.NAMES[c_].decode().strip() for c_ in want]
        cols = [exp[c_] for c_ in want]
        # listed finding bit_tolas_step_mnemonic, tolerated exactly: the step line carries the mnemonic STRP (its value must still be right)
        return _check_las(las, xs, cols, names, sel, 0.0006, _well_strict(xs, sel), step_mnems=('STRP',) if EXCL('bit_tolas_step_mnemonic') else ('STEP',))
    finally:
        shutil.rmtree(tmp, ignore_errors=True)


def bit_to_las(nch: int, f0: int, f1: int, inc: bool, kind: int, a: int, b: int, c: int, m1: bool) -> bool:
    """
    pre: 1 <= nch <= 2 and 1 <= f0 <= 3 and 1 <= f1 <= 2 and 0 <= kind <= 2 and -2 <= a <= 2 and b in (-1, 2, 3, 5) and 1 <= c <= 3
    pre: kind == 1 or (a == 0 and b == 2)
    pre: kind != 0 or c == 1
    pre: PART < 0 or (6 if inc else 0) + (3 if nch == 2 else 0) + kind == PART
    post: _
    """
    nch, f0, f1, kind = mark.pick(nch, 1, 2), mark.pick(f0, 1, 3), mark.pick(f1, 1, 2), mark.pick(kind, 0, 2)
    a, b, c = mark.pick(a, -2, 2), mark.pick_from(b, (-1, 2, 3, 5)), mark.pick(c, 1, 3)
    inc, m1 = mark.pickb(inc), mark.pickb(m1)
    with mark.untraced():
        return _bit(nch, f0, f1, inc, kind, a, b, c, m1)
