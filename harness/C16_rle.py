"""C16 CrossHair harnesses: run-length encodings reproduce what they encode."""
import logging
logging.disable(logging.CRITICAL)
import os
from engine import mark
PART = int(os.environ.get('VERIF_PART', '-1'))
from TotalDepth.common import Rle
from TotalDepth.LIS.core import Rle as LisRle


def _seq(n, x0, x1, x2, x3, x4):
    return [x0, x1, x2, x3, x4][:n]


def rle_roundtrip(n: int, x0: int, x1: int, x2: int, x3: int, x4: int) -> bool:
    """
    pre: 1 <= n <= 5
    pre: -3 <= x0 <= 3 and -3 <= x1 <= 3 and -3 <= x2 <= 3 and -3 <= x3 <= 3 and -3 <= x4 <= 3
    post: _
    """
    xs = _seq(n, x0, x1, x2, x3, x4)
    r = Rle.create_rle(xs)
    mark.hit()
    if r.num_values() != n:
        return False
    for i in range(n):
        if r.value(i) != xs[i]:
            return False
        if r.value(-1 - i) != xs[n - 1 - i]:
            return False
    if list(r.values()) != xs:
        return False
    if r.first() != xs[0] or r.last() != xs[n - 1]:
        return False
    tot = 0
    for item in r.rle_items:
        tot += len(item)
    return tot == n


def rle_roundtrip_large(n: int, x0: int, x1: int, x2: int, x3: int, scale: int) -> bool:
    """
    pre: 1 <= n <= 4 and 0 <= scale <= 2
    pre: -3 <= x0 <= 3 and -3 <= x1 <= 3 and -3 <= x2 <= 3 and -3 <= x3 <= 3
    pre: (n >= 2 or x1 == 0) and (n >= 3 or x2 == 0) and (n >= 4 or x3 == 0)
    pre: PART < 0 or x0 + 3 == PART
    post: _
    """
    # integers far beyond 2**53 (nanosecond time stamps, positions in huge files): still exact, no float arithmetic may be involved
    n, scale = mark.pick(n, 1, 4), mark.pick(scale, 0, 2)
    x0 = mark.pick(x0, -3, 3)
    x1 = mark.pick(x1, -3, 3) if n >= 2 else 0
    x2 = mark.pick(x2, -3, 3) if n >= 3 else 0
    x3 = mark.pick(x3, -3, 3) if n >= 4 else 0
    with mark.untraced():
        base = [2 ** 60, -(2 ** 62), 1700000000000000000][scale]
        step = [1000, 0, 1000000][scale]
        xs = [base + i * step + x for i, x in enumerate([x0, x1, x2, x3][:n])]
        r = Rle.create_rle(xs)
        mark.hit()
        if r.num_values() != n or list(r.values()) != xs:
            return False
        for i in range(n):
            if r.value(i) != xs[i] or r.value(-1 - i) != xs[n - 1 - i]:
                return False
        return r.first() == xs[0] and r.last() == xs[n - 1]


def rle_largest_le(n: int, x0: int, d1: int, d2: int, d3: int, q: int) -> bool:
    """
    pre: 1 <= n <= 4
    pre: 0 <= x0 <= 2 and 1 <= d1 <= 3 and 1 <= d2 <= 3 and 1 <= d3 <= 3
    pre: x0 <= q <= 12
    post: _
    """
    xs = [x0, x0 + d1, x0 + d1 + d2, x0 + d1 + d2 + d3][:n]
    r = Rle.create_rle(xs)
    mark.hit()
    best = xs[0]
    for x in xs:
        if x <= q:
            best = x
    return r.largest_le(q) == best


def rle_largest_le_large(n: int, d1: int, d2: int, d3: int, qi: int, scale: int) -> bool:
    """
    pre: 1 <= n <= 4 and 0 <= scale <= 1
    pre: 1 <= d1 <= 3 and 1 <= d2 <= 3 and 1 <= d3 <= 3
    pre: (n >= 2 or d1 == 1) and (n >= 3 or d2 == 1) and (n >= 4 or d3 == 1)
    pre: 0 <= qi < 3 * n
    post: _
    """
    # widely spaced integers beyond 2**53: the answer must come from integer arithmetic (query = a stored value, one below, one above)
    n, scale = mark.pick(n, 1, 4), mark.pick(scale, 0, 1)
    d1 = mark.pick(d1, 1, 3) if n >= 2 else 1
    d2 = mark.pick(d2, 1, 3) if n >= 3 else 1
    d3 = mark.pick(d3, 1, 3) if n >= 4 else 1
    qi = mark.pick(qi, 0, 3 * n - 1)
    with mark.untraced():
        base, unit = [(10 ** 15, 3 * 10 ** 15 + 7), (2 ** 60, 2 ** 55 + 1)][scale]
        xs = [base, base + d1 * unit, base + (d1 + d2) * unit, base + (d1 + d2 + d3) * unit][:n]
        q = xs[qi // 3] + (qi % 3) - 1
        if q < xs[0]:
            return True           # below the first value: outside the documented domain of largest_le
        r = Rle.create_rle(xs)
        mark.hit()
        best = xs[0]
        for x in xs:
            if x <= q:
                best = x
        return r.largest_le(q) == best


def type01_frames(n: int, g1: int, g2: int, g3: int, f0: int, f1: int, f2: int, f3: int, fnum: int) -> bool:
    """
    pre: 1 <= n <= 4
    pre: 1 <= g1 <= 3 and 1 <= g2 <= 3 and 1 <= g3 <= 3
    pre: 1 <= f0 <= 3 and 1 <= f1 <= 3 and 1 <= f2 <= 3 and 1 <= f3 <= 3
    pre: 0 <= fnum <= 12
    post: _
    """
    pos = [100, 100 + g1, 100 + g1 + g2, 100 + g1 + g2 + g3][:n]
    frs = [f0, f1, f2, f3][:n]
    r = LisRle.RLEType01(b'FEET')
    x = 1000
    xs = []
    for i in range(n):
        r.add(pos[i], frs[i], x)
        xs.append(x)
        x -= frs[i] * 5
    mark.hit()
    tot = 0
    for f in frs:
        tot += f
    if r.totalFrames() != tot:
        return False
    if r.xAxisFirst() != 1000:
        return False
    if r.xAxisLast() != xs[n - 1]:
        return False
    # expected record and offset of frame fnum
    if fnum >= tot:
        try:
            r.tellLrForFrame(fnum)
        except IndexError:
            return True
        return False
    k, rest = 0, fnum
    while rest >= frs[k]:
        rest -= frs[k]
        k += 1
    return r.tellLrForFrame(fnum) == (pos[k], rest)


def type01_frames_incremental(n: int, g1: int, g2: int, g3: int, f0: int, f1: int, f2: int, f3: int, conv: int = 0) -> bool:
    """
    pre: 1 <= n <= 4
    pre: 1 <= g1 <= 2 and 1 <= g2 <= 2 and 1 <= g3 <= 2
    pre: 1 <= f0 <= 2 and 1 <= f1 <= 2 and 1 <= f2 <= 2 and 1 <= f3 <= 2
    pre: (n >= 2 or (g1 == 1 and f1 == 1)) and (n >= 3 or (g2 == 1 and f2 == 1)) and (n >= 4 or (g3 == 1 and f3 == 1))
    pre: 0 <= conv <= 2
    post: _
    """
    # the index is queried while it is being built (after every record): every answer must be that of the records added so far
    n, f0 = mark.pick(n, 1, 4), mark.pick(f0, 1, 2)
    g1, f1 = (mark.pick(g1, 1, 2), mark.pick(f1, 1, 2)) if n >= 2 else (1, 1)
    g2, f2 = (mark.pick(g2, 1, 2), mark.pick(f2, 1, 2)) if n >= 3 else (1, 1)
    g3, f3 = (mark.pick(g3, 1, 2), mark.pick(f3, 1, 2)) if n >= 4 else (1, 1)
    conv = mark.pick(conv, 0, 2)
    with mark.untraced():
        raw = [100, 100 + g1, 100 + g1 + g2, 100 + g1 + g2 + g3][:n]
        frs = [f0, f1, f2, f3][:n]
        # optional conversion of the record positions (e.g. relative to the start of the logical file): every answer is in converted positions
        fn = [None, lambda t: t - 0x50, lambda t: 3 * t + 1][conv]
        pos = [p if fn is None else fn(p) for p in raw]
        r = LisRle.RLEType01(b'FEET') if fn is None else LisRle.RLEType01(b'FEET', fn)
        x = 1000
        mark.hit()
        for i in range(n):
            r.add(raw[i], frs[i], x)
            x -= frs[i] * 5
            tot = sum(frs[:i + 1])
            if r.totalFrames() != tot or r.xAxisFirst() != 1000:
                return False
            fnum = 0
            for k in range(i + 1):
                for o in range(frs[k]):
                    if r.tellLrForFrame(fnum) != (pos[k], o):
                        return False
                    fnum += 1
            try:
                r.tellLrForFrame(tot)
                return False
            except IndexError:
                pass
        return True


# ---------------------------------------------------------------------------------------------------- float sequences

FBASE = [0.1, 1000.0, 1.7e12, -805.2105103]
FSTRIDE = [0.1, 0.0025399999999535794, 1000.0, -0.5]


def _jit(v, stride, j):
    """j: 0 exact continuation, 1 one unit in the last place off, 2 relative 1e-10 off, 3 relative 1e-7 off, 4 a quarter stride off, 5 one and a half strides late."""
    import sys
    if j == 1:
        return v * (1.0 + sys.float_info.epsilon)
    if j == 2:
        return v * (1.0 + 1e-10)
    if j == 3:
        return v * (1.0 - 1e-7)
    if j == 4:
        return v + stride * 0.25
    if j == 5:
        return v + stride * 1.5
    return v


def _rle_floats(n, b, st, j2, j3, j4):
    """Floats come back, by position and by iteration, to within rounding (a unit in the last place of the value - the run-length encoding
    deliberately absorbs values that close to the extrapolated one); count, first and last agree."""
    import sys
    base, stride = FBASE[b], FSTRIDE[st]
    seq = [base, base + stride]
    for i, j in zip(range(2, n), (j2, j3, j4)):
        seq.append(_jit(base + i * stride, stride, j))
    rle = Rle.create_rle(seq)
    mark.hit()
    if rle.num_values() != len(seq):
        return False
    eps = sys.float_info.epsilon
    close = lambda a, b_: abs(a - b_) <= 2 * eps * max(abs(a), abs(b_))
    vals = list(rle.values())
    if len(vals) != len(seq):
        return False
    for i, want in enumerate(seq):
        if not close(vals[i], want) or not close(rle.value(i), want) or not close(rle.value(i - len(seq)), want):
            return False
    return close(rle.first(), seq[0]) and close(rle.last(), seq[-1])


def rle_floats(n: int, b: int, st: int, j2: int, j3: int, j4: int) -> bool:
    """
    pre: 2 <= n <= 5 and 0 <= b <= 3 and 0 <= st <= 3
    pre: 0 <= j2 <= 5 and 0 <= j3 <= 5 and 0 <= j4 <= 5
    pre: (n >= 3 or j2 == 0) and (n >= 4 or j3 == 0) and (n >= 5 or j4 == 0)
    pre: PART < 0 or b * 4 + st == PART
    post: _
    """
    n, b, st = mark.pick(n, 2, 5), mark.pick(b, 0, 3), mark.pick(st, 0, 3)
    j2 = mark.pick(j2, 0, 5) if n >= 3 else 0
    j3 = mark.pick(j3, 0, 5) if n >= 4 else 0
    j4 = mark.pick(j4, 0, 5) if n >= 5 else 0
    with mark.untraced():
        return _rle_floats(n, b, st, j2, j3, j4)


# ---------------------------------------------------------------------------------------------------- a conversion function, and values added later

FNS = [None, lambda p: p - 0x50, lambda p: 2 * p, lambda p: -p]


def _rle_fn_then_add(fi, n0, n1, gap, late):
    """create_rle(values, fn) followed by further add() calls is the run-length encoding of fn applied to ALL the values, those given at once
    and those added later (the function belongs to the encoding)."""
    fn = FNS[fi]
    first = [0x50 + 0x80 * i for i in range(n0)]
    more = [0x50 + 0x80 * (n0 + i) + (gap if i >= late else 0) for i in range(n1)]
    rle = Rle.create_rle(first, fn) if fn is not None else Rle.create_rle(first)
    for v in more:
        rle.add(v)
    mark.hit()
    want = [fn(v) if fn is not None else v for v in first + more]
    if rle.num_values() != len(want) or list(rle.values()) != want:
        return False
    for i in range(len(want)):
        if rle.value(i) != want[i] or rle.value(i - len(want)) != want[i]:
            return False
    if want and (rle.first() != want[0] or rle.last() != want[-1]):
        return False
    return True


def rle_fn_then_add(fi: int, n0: int, n1: int, gap: int, late: int) -> bool:
    """
    pre: 0 <= fi <= 3 and 1 <= n0 <= 4 and 0 <= n1 <= 3 and gap in (0, 1, 0x130) and 0 <= late <= 2
    post: _
    """
    fi, n0, n1, gap, late = mark.pick(fi, 0, 3), mark.pick(n0, 1, 4), mark.pick(n1, 0, 3), mark.pick_from(gap, (0, 1, 0x130)), mark.pick(late, 0, 2)
    with mark.untraced():
        return _rle_fn_then_add(fi, n0, n1, gap, late)
