"""C07 CrossHair harness: LIS representation code 65 (text of a declared length, which may be zero) read from a file and from bytes."""
import io
import logging
logging.disable(logging.CRITICAL)
from engine import mark
from spec import lis_lr_ref as L
from TotalDepth.LIS.core import File, RepCode

TEXT = b'ABCD EFG'


def text_code_65(n: int, k: int) -> bool:
    """
    pre: 0 <= n <= 8 and 0 <= k <= 2
    post: _
    """
    n, k = mark.pick(n, 0, 8), mark.pick(k, 0, 2)
    with mark.untraced():
        # a logical record body: k leading bytes, the text of n bytes, then a code 66 byte and a code 79 word as sentinels
        body = bytes([0x80, 0]) + b'xy'[:k] + TEXT[:n] + bytes([42]) + bytes([0x01, 0x02])
        data, pos = L.physical([body], False, None)
        f = File.FileRead(io.BytesIO(data), 'id', False)
        f.readLrBytes(2 + k)
        mark.hit()
        got = RepCode.readRepCode(65, f, n)
        if (got or b'') != TEXT[:n]:
            return False
        # exactly n bytes were consumed: the sentinels follow
        if RepCode.readRepCode(66, f) != 42 or RepCode.readRepCode(79, f) != 0x0102:
            return False
        if RepCode.readBytes(65, TEXT, n) != TEXT[:n]:
            return False
        try:
            RepCode.readRepCode(65, f)            # no length given: refused
            return False
        except RepCode.ExceptionRepCodeNoLength:
            pass
        return True
