"""C19 CrossHair harness (plot level): a LIS log pass plotted through Plot.PlotReadLIS gives a well-formed SVG in which every point of every
curve lies inside the track that the PRES table assigns to that curve, whatever the other curves of the plot are and however far the
data runs off scale; a logarithmic curve whose data has zero or negative samples is still plotted."""
import io
import logging
import os
logging.disable(logging.CRITICAL)
PART = int(os.environ.get('VERIF_PART', '-1'))
import xml.etree.ElementTree as ET
from engine import mark
from spec import lis_lr_ref as L
from TotalDepth.LIS.core import File, FileIndexer, LogiRec, Mnem, EngVal
from TotalDepth.util.plot import FILMCfg, Plot, PlotConstants

TRACKS = [b'T1  ', b'T2  ', b'T3  ', b'T23 ', b'LHT1', b'RHT1', b'LHT2', b'RHT2', b'LHT3', b'RHT3', b'T12 ']
# The three-track film (FILM GCOD 'E20 ' = linear T1, depth track, T2 and T3 as one 4-decade log grid) in inches from the left plot margin:
# the API log layout, written here independently of FILMCfg.  LHTn / RHTn are the left / right half of track n, Tnm spans tracks n..m.
TRACK_EDGES = {1: (0.0, 2.4), 2: (3.2, 5.6), 3: (5.6, 8.0)}


def _track_extent(name):
    n = name.strip()
    if n.startswith(b'LHT') or n.startswith(b'RHT'):
        lo, hi = TRACK_EDGES[int(n[3:4])]
        mid = (lo + hi) / 2
        return (lo, mid) if n[:1] == b'L' else (mid, hi)
    digits = [int(chr(c)) for c in n[1:]]
    return TRACK_EDGES[digits[0]][0], TRACK_EDGES[digits[-1]][1]
MODES = [b'NB  ', b'WRAP', b'SHIF', b'GRAD']             # no back-up, unlimited wrap, one shift, logarithmic
CODINGS = [(b'LSPO', '2,2'), (b'LDAS', '4,4'), (b'HGAP', '6,2')]
# one cycle of the recorded signal (multiplied by the amplitude): crosses zero, both signs
WAVE = [0.0, 0.5, 1.0, 0.5, 0.0, -0.5, -1.0, -0.5]
AMPS = [4.0, 40.0, 400.0]
NFRAMES = 25


def _a(s):
    return s.ljust(4)[:4]


def _table(name, rows):
    lr = L.table_record(34, name, rows)
    data, pos = L.physical([lr], False, None)
    return LogiRec.LrTableRead(File.FileRead(io.BytesIO(data), 'tab', True))


def _film():
    return [(b'1   ', [(b'GCOD', 65, b'E20 ', b'    '), (b'GDEC', 65, b'-4--', b'    '), (b'DEST', 65, b'PF1 ', b'    '), (b'DSCA', 65, b'D200', b'    ')])]


def _pres(curves):
    rows = []
    for k, (outp, trac, mode) in enumerate(curves):
        ledg, redg = (0.25, 2048.0) if mode == 3 else (-8.0, 8.0)
        rows.append((b'CV%d ' % k, [(b'OUTP', 65, _a(outp), b'    '), (b'STAT', 65, b'ALLO', b'    '), (b'TRAC', 65, TRACKS[trac], b'    '),
                                   (b'CODI', 65, CODINGS[k][0], b'    '), (b'DEST', 65, b'1   ', b'    '), (b'MODE', 65, MODES[mode], b'    '),
                                   (b'FILT', 68, L.encode68(0.5), b'    '), (b'LEDG', 68, L.encode68(ledg), b'MV  '), (b'REDG', 68, L.encode68(redg), b'MV  ')]))
    return rows


def _values(amp, phase):
    return [AMPS[amp] * WAVE[(f + phase) % len(WAVE)] for f in range(NFRAMES)]


def _cons():
    """A CONS table with a few of the constants the API header is filled from."""
    rows = []
    for m, v in ((b'CN  ', b'Company name'), (b'WN  ', b'Well name'), (b'FN  ', b'Field name'), (b'HIDE', b'Log Title')):
        rows.append((m, [(b'STAT', 65, b'ALLO', b'    '), (b'PUNI', 65, b'    ', b'    '), (b'TUNI', 65, b'    ', b'    '), (b'VALU', 65, v, b'    ')]))
    return rows


def _lis(chans, xin=False, down=False):
    """chans: [(mnem, [values])]; direct X DEPT from 1000 FEET by 1 FOOT per frame, decreasing (an up log) or increasing (down), recorded in FEET
    or (xin) in tenth-inches."""
    xu, k = (b'.1IN', 120) if xin else (b'FEET', 1)
    dfsr = L.dfsr([(b'DEPT', xu, 4, 1, 68)] + [(m, b'MV  ', 4, 1, 68) for m, _ in chans], False, up=not down, spacing=k, depth_rc=68,
                  spacing_units=xu, depth_units=xu)
    lrs = [L.file_head_tail(128), dfsr]
    for r0 in range(0, NFRAMES, 8):
        frames = []
        for f in range(r0, min(NFRAMES, r0 + 8)):
            frames.append(L.encode68(float(k * (1000 + f if down else 1000 - f))) + b''.join(L.encode68(v[f]) for _, v in chans))
        lrs.append(L.data_record(frames))
    lrs.append(L.file_head_tail(129))
    data, pos = L.physical(lrs, False, None)
    lis = File.FileRead(io.BytesIO(data), 'lis', False)
    return lis, FileIndexer.FileIndex(lis)


def _plot(ncurves, t0, t1, m0, m1, amp, same_outp, xin=False):
    # an up or a down log, with or without the API header (a CONS table handed to the plotter): both follow from the other selectors so
    # that every combination of the two occurs without multiplying the cases
    down = (m1 + t1 + amp) % 2 == 1
    cons = (m0 + amp) % 2 == 1
    curves = [(b'AAAA', t0, m0), (b'AAAA' if same_outp else b'BBBB', t1, m1)][:ncurves]
    chans = [(b'AAAA', _values(amp, 0))]
    if ncurves == 2 and not same_outp:
        chans.append((b'BBBB', _values((amp + 1) % 3, 3)))
    film = _film()
    plot = Plot.PlotReadLIS(_table(b'FILM', film), _table(b'PRES', _pres(curves)))
    cfg = FILMCfg.FilmCfgLISRead(_table(b'FILM', film))
    lis, index = _lis(chans, xin, down)
    out = io.StringIO()
    fid = Mnem.Mnem(b'1   ')
    for ilp in index.genLogPasses():
        x_stop = 1000.0 + (NFRAMES - 1) if down else 1000.0 - (NFRAMES - 1)
        plot.plotLogPassLIS(lis, ilp.logPass, EngVal.EngVal(1000.0, b'FEET'), EngVal.EngVal(x_stop, b'FEET'), fid, out, frameStep=1, title='verif',
                            lrCONS=[_table(b'CONS', _cons())] if cons else None)
    mark.hit()
    try:
        root = ET.fromstring(out.getvalue().split('?>', 1)[1].split('>', 1)[1] if out.getvalue().lstrip().startswith('<?xml') and '<!DOCTYPE' in out.getvalue()[:300] else out.getvalue())
    except ET.ParseError:
        try:
            root = ET.fromstring(out.getvalue())
        except ET.ParseError:
            return False
    scale = PlotConstants.VIEW_BOX_UNITS_PER_PLOT_UNITS
    margin_left = PlotConstants.MarginQtrInch.left.value
    vb = [float(v) for v in root.get('viewBox').split()]
    polylines = [e for e in root.iter() if e.tag.endswith('polyline') and e.get('fill') == 'none']
    for k, (outp, trac, mode) in enumerate(curves):
        left_in, right_in = _track_extent(TRACKS[trac])
        x_lo, x_hi = (margin_left + left_in) * scale, (margin_left + right_in) * scale
        mine = [e for e in polylines if e.get('stroke-dasharray') == CODINGS[k][1]]
        npts = 0
        for e in mine:
            for pt in e.get('points').split():
                x, y = (float(s) for s in pt.split(','))
                npts += 1
                if not (x_lo - 0.11 <= x <= x_hi + 0.11):
                    return False
                if not (vb[1] - 0.11 <= y <= vb[1] + vb[3] + 0.11):
                    return False
        vals = dict(chans)[_a(outp)]
        if mode == 3:
            # logarithmic scale 0.25 .. 2048: one point per positive sample that is on scale, none for zero / negative samples
            onscale = [v for v in vals if 0.25 <= v <= 2048.0]
            if npts < len(onscale) - 1:        # (the frame at the stop depth may or may not be drawn)
                return False
        elif mode in (1, 2) or AMPS[amp] <= 8.0:
            # a wrapping curve (or one that never leaves the scale) shows every sample
            if outp == b'AAAA' and npts < NFRAMES - 1 and mode == 1:
                return False
    return True


def svg_curves_in_track(ncurves: int, t0: int, t1: int, m0: int, m1: int, amp: int, same_outp: bool, xin: bool = False) -> bool:
    """
    pre: 1 <= ncurves <= 2 and 0 <= t0 <= 10 and 0 <= t1 <= 3 and 0 <= m0 <= 3 and 0 <= m1 <= 3 and 0 <= amp <= 2
    pre: ncurves == 2 or (t1 == 0 and m1 == 0 and not same_outp)
    pre: PART < 0 or t0 * 4 + m0 == PART
    post: _
    """
    ncurves, t0, t1, m0, m1, amp = mark.pick(ncurves, 1, 2), mark.pick(t0, 0, 10), mark.pick(t1, 0, 3), mark.pick(m0, 0, 3), mark.pick(m1, 0, 3), mark.pick(amp, 0, 2)
    same_outp, xin = mark.pickb(same_outp), mark.pickb(xin)
    with mark.untraced():
        return _plot(ncurves, t0, t1, m0, m1, amp, same_outp, xin)
