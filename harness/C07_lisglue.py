"""C07 CrossHair harness: the public LIS decoding entries - RepCode.readBytes(code, bytes), RepCode.readBytesNN(bytes), RepCode.readRepCode(code,
file), RepCode.readNN(file) and the frame-set path LIS bytes -> numpy value - unpack the word the way the SMT obligations assume (size, byte
order, signedness as the from-word function's signature takes it) and give the LIS-79 value; the same bytes give the same value by every entry."""
import io
import logging
import math
import os
logging.disable(logging.CRITICAL)
PART = int(os.environ.get('VERIF_PART', '-1'))
from engine import mark
from spec import lis_lr_ref as L
from spec import repcodes as S
from spec import repcodes_ref as REF
from TotalDepth.LIS.core import File, RepCode

# The compiled extension next to the sources is a git-ignored build product that may predate the current cRepCode.pyx: what is decided here is
# the tree as it builds now, so the Cython functions are rebuilt from the current .pyx and laid over RepCode exactly where the stale ones were.
from engine import pyx2py
from TotalDepth.LIS.core import cRepCode as _stale
_fresh = pyx2py.build_cython_from_source()
for _n in dir(_fresh):
    if not _n.startswith('_') and hasattr(_stale, _n) and getattr(RepCode, _n, None) is getattr(_stale, _n):
        setattr(RepCode, _n, getattr(_fresh, _n))

CODES = [49, 50, 56, 66, 68, 70, 73, 77, 79]
# byte values at the sign / exponent boundaries
BYTES = [0x00, 0x01, 0x3f, 0x40, 0x7f, 0x80, 0xbf, 0xc0, 0xff]


def _same(a, b):
    if isinstance(b, float):
        if not isinstance(a, float):
            return False
        if math.isnan(b):
            return math.isnan(a)
        return a == b or abs(a - b) <= 1e-12 * abs(b)
    return type(a) is type(b) and a == b


def _glue(ci, b0, b1, b2, b3):
    code = CODES[ci]
    n = S.LIS_SIZE[code]
    by = bytes([b0, b1, b2, b3][:n])
    u = int.from_bytes(by, 'big')
    if code == 50:
        e = (u >> 16) - (0x10000 if u & 0x80000000 else 0)
        if not -1000 <= e <= 1000:
            return True                 # (a 16-bit exponent beyond the range of a double: outside the claim, as in the SMT obligation)
    want = REF.LIS[code](u)
    mark.hit()
    got = [RepCode.readBytes(code, by), getattr(RepCode, 'readBytes%d' % code)(by)]
    # from a file: the value sits in a logical record after two leading bytes, a sentinel byte follows
    body = bytes([0x80, 0]) + by + bytes([42])
    for entry in (lambda f: RepCode.readRepCode(code, f), getattr(RepCode, 'read%d' % code)):
        data, pos = L.physical([body], False, None)
        f = File.FileRead(io.BytesIO(data), 'id', False)
        f.readLrBytes(2)
        got.append(entry(f))
        if RepCode.readRepCode(66, f) != 42:
            return False                # exactly lisSize(code) bytes consumed
    if RepCode.lisSize(code) != n:
        return False
    for g in got:
        if not _same(g, want):
            return False
    return True


def lis_read_glue(ci: int, b0: int, b3: int) -> bool:
    """
    pre: 0 <= ci <= 8 and 0 <= b0 <= 8 and 0 <= b3 <= 8
    pre: PART < 0 or ci == PART
    post: _
    """
    ci, b0, b3 = mark.pick(ci, 0, 8), mark.pick(b0, 0, 8), mark.pick(b3, 0, 8)
    with mark.untraced():
        n = S.LIS_SIZE[CODES[ci]]
        if n == 1 and b3 != 0:
            return True                 # (one-byte codes: only the first byte exists)
        for b1 in (BYTES if n >= 3 else [0]):
            for b2 in ([0x00, 0x80, 0xff] if n >= 3 else [0]):
                last = BYTES[b3]
                if not _glue(ci, BYTES[b0], b1 if n > 2 else last, b2, last):
                    return False
        return True
