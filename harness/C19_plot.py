"""C19 CrossHair harnesses: polyline break at wraps."""
import logging
logging.disable(logging.CRITICAL)
from engine import mark
from TotalDepth.util.plot import Plot, PRESCfg

BACKUPS = [(0, 0), (-1, 1), (-2, 2), (-1, 0), (0, 1)]
_PLOT = object.__new__(Plot.Plot)


def interp_points_small(wp: int, wn: int, bu: int, up: bool) -> bool:
    """
    pre: -2 <= wp <= 2 and -2 <= wn <= 2 and wp != wn
    pre: 0 <= bu <= 2
    post: _
    """
    return _interp_points(wp, wn, bu, 3, -4 if up else 4)


def interp_points(wp: int, wn: int, bu: int, xp: int, dx: int) -> bool:
    """
    pre: -3 <= wp <= 3 and -3 <= wn <= 3 and wp != wn
    pre: 0 <= bu <= 4
    pre: -5 <= xp <= 5 and -4 <= dx <= 4 and dx != 0
    post: _
    """
    return _interp_points(wp, wn, bu, xp, dx)


def _interp_points(wp, wn, bu, xp, dx):
    # The code under test formats wrapDiff and xInc into a debug message, which makes CrossHair realize them anyway (after building a
    # nonlinear term the solver times out on).  Picking the two wrap counts by ordinary branching first keeps every path decidable; the path tree still
    # covers every (wrapPrev, wrapNow) pair of the precondition.
    wp, wn = mark.pick(wp, -3, 3), mark.pick(wn, -3, 3)
    twd = PRESCfg.TrackWidthData(2.0, 5.0, 0, 2)
    ltb = PRESCfg.LineTransLin(2.0, 5.0, 0.0, 10.0, BACKUPS[bu])
    xn = xp + dx
    pnow = 3.25
    end, cross, new = _PLOT._retInterpolateWrapPoints(twd, ltb, xp, xn, pnow, wp, wn)
    mark.hit()
    lo, hi = (xp, xn) if xp < xn else (xn, xp)
    both_left = ltb.isOffScaleLeft(wp) and ltb.isOffScaleLeft(wn)
    both_right = ltb.isOffScaleRight(wp) and ltb.isOffScaleRight(wn)
    if both_left or both_right:
        return end is None and cross == [] and new == []
    pts = []
    if end is not None:
        if ltb.offScale(wp):
            return False            # suppressed wrap produced a point
        if end[1] != (5.0 if wn > wp else 2.0):
            return False
        pts.append(end)
    elif not ltb.offScale(wp):
        return False
    if len(cross) % 2:
        return False
    for i in range(0, len(cross), 2):
        a, b = cross[i], cross[i + 1]
        if wn > wp:
            if a[1] != 2.0 or b[1] != 5.0:
                return False
        else:
            if a[1] != 5.0 or b[1] != 2.0:
                return False
        pts.append(a)
        pts.append(b)
    if ltb.offScale(wn):
        if new != []:
            return False
    else:
        if len(new) != 2:
            return False
        if new[0][1] != (2.0 if wn > wp else 5.0):
            return False
        if new[1] != (xn, pnow):
            return False
        pts.append(new[0])
    for x, p in pts:
        if not (lo <= x <= hi):
            return False
        if not (2.0 <= p <= 5.0):
            return False
    # X moves monotonically from the previous sample towards the current one
    for i in range(1, len(pts)):
        if dx > 0 and pts[i][0] < pts[i - 1][0]:
            return False
        if dx < 0 and pts[i][0] > pts[i - 1][0]:
            return False
    return True


def filter_lines(n: int) -> bool:
    """
    pre: 0 <= n <= 12
    post: _
    """
    lines = []
    for i in range(n):
        lines.append((i, 2.0))
        lines.append((i + 0.5, 5.0))
    got = _PLOT._filterCrossLineList(lines)
    mark.hit()
    m = Plot.Plot.MAX_BACKUP_TRACK_CROSSING_LINES
    if len(got) % 2:
        return False
    if n <= m:
        return got == lines
    if len(got) // 2 > m + 1:
        return False
    # pairs are kept whole, in order, the first one kept
    if got[0] != lines[0] or got[1] != lines[1]:
        return False
    prev = -1
    for i in range(0, len(got), 2):
        k = got[i][0]
        if got[i + 1] != (k + 0.5, 5.0) or got[i] != (k, 2.0) or k <= prev:
            return False
        prev = k
    return True
