"""C15 CrossHair harnesses: Slice / Sample / create_slice_or_sample."""
from typing import Optional
import os
from engine import mark
PART = int(os.environ.get('VERIF_PART', '-1'))
from TotalDepth.common import Slice as S


class PySlice:
    """Pure-Python stand-in for the builtin slice (PySlice_Unpack + PySlice_AdjustIndices); validated against the builtin on every run
    (props/C15.py selftest).  The builtin is C code and would realize its arguments."""
    def __init__(self, start, stop, step):
        self.start, self.stop, self.step = start, stop, step

    def indices(self, length):
        step = 1 if self.step is None else self.step
        if step == 0:
            raise ValueError('slice step cannot be zero')
        if step > 0:
            lo, hi = 0, length
        else:
            lo, hi = -1, length - 1

        def adj(v, default):
            if v is None:
                return default
            if v < 0:
                v += length
                if v < lo:
                    v = lo
            elif v > hi:
                v = hi
            return v
        if step > 0:
            return adj(self.start, 0), adj(self.stop, length), step
        return adj(self.start, length - 1), adj(self.stop, -1), step

    def __eq__(self, o):
        return (self.start, self.stop, self.step) == (o.start, o.stop, o.step)

    def __repr__(self):
        return 'slice(%r, %r, %r)' % (self.start, self.stop, self.step)


def python_slice_indices(start, stop, step, n):
    """Language reference (3.3.1 / sequence slicing): the selected indices, by explicit stepping."""
    st = 1 if step is None else step
    if st > 0:
        lo = 0 if start is None else (max(start + n, 0) if start < 0 else min(start, n))
        hi = n if stop is None else (max(stop + n, 0) if stop < 0 else min(stop, n))
        out = []
        i = lo
        while i < hi:
            out.append(i)
            i += st
        return out
    lo = n - 1 if start is None else (max(start + n, -1) if start < 0 else min(start, n - 1))
    hi = -1 if stop is None else (max(stop + n, -1) if stop < 0 else min(stop, n - 1))
    out = []
    i = lo
    while i > hi:
        out.append(i)
        i += st
    return out


def _slice_sel(start, stop, step, n, first_n=None):
    real = S.slice if hasattr(S, 'slice') else None
    S.slice = PySlice
    try:
        s = S.Slice(start, stop, step)
        if first_n is not None:
            # the same selector object was applied to a sequence of another length before (one --frame-slice serves every log pass)
            s.count(first_n)
            s.indices(first_n)
            s.first(first_n)
        got = s.indices(n)
        exp = python_slice_indices(start, stop, step, n)
        mark.hit()
        if got != exp:
            return False
        if s.count(n) != len(exp):
            return False
        if len(exp) > 0 and s.first(n) != exp[0]:
            return False
        if list(s.gen_indices(n)) != exp:
            return False
        return True
    finally:
        if real is None:
            del S.slice
        else:
            S.slice = real


def slice_sel(start: Optional[int], stop: Optional[int], step: Optional[int], n: int) -> bool:
    """
    pre: 0 <= n <= 6
    pre: start is None or -7 <= start <= 7
    pre: stop is None or -7 <= stop <= 7
    pre: step is None or 1 <= step <= 7
    post: _
    """
    return _slice_sel(start, stop, step, n)


def slice_sel_neg(start: Optional[int], stop: Optional[int], step: int, n: int) -> bool:
    """
    pre: 0 <= n <= 5
    pre: start is None or -6 <= start <= 6
    pre: stop is None or -6 <= stop <= 6
    pre: -6 <= step <= -1
    post: _
    """
    return _slice_sel(start, stop, step, n)


def slice_reuse(start: Optional[int], stop: Optional[int], step: Optional[int], n1: int, n2: int) -> bool:
    """
    pre: 0 <= n1 <= 5 and 0 <= n2 <= 5 and n1 != n2
    pre: start is None or -5 <= start <= 5
    pre: stop is None or -5 <= stop <= 5
    pre: step is None or (-3 <= step <= 3 and step != 0)
    pre: PART < 0 or n1 == PART
    post: _
    """
    n1, n2 = mark.pick(n1, 0, 5), mark.pick(n2, 0, 5)
    return _slice_sel(start, stop, step, n2, n1)


def sample_reuse(size: int, n1: int, n2: int) -> bool:
    """
    pre: 0 <= n1 <= 8 and 0 <= n2 <= 8 and n1 != n2
    pre: 1 <= size <= 5
    post: _
    """
    return _sample_sel(size, n2, n1)


def sample_sel_small(size: int, n: int) -> bool:
    """
    pre: 1 <= size <= 4
    pre: 0 <= n <= 6
    post: _
    """
    return _sample_sel(size, n)


def sample_sel(size: int, n: int) -> bool:
    """
    pre: 1 <= size <= 8
    pre: 0 <= n <= 12
    post: _
    """
    return _sample_sel(size, n)


def sample_sel_wide(size: int, n: int) -> bool:
    """
    pre: 1 <= size <= 48 and 0 <= n <= 64
    pre: PART < 0 or (size - 1) // 6 == PART
    post: _
    """
    # sizes well beyond the symbolic obligations, run natively: spacing arithmetic that is only right for small or 'round' sizes shows here
    size, n = mark.pick(size, 1, 48), mark.pick(n, 0, 64)
    with mark.untraced():
        return _sample_sel(size, n)


def _sample_interleaved(size, n1, k, n2):
    """One selector object used by two walks at once: k indices are taken from a generator over n1, then the selector is asked for the
    whole index list of n2 (and its count / first), then the first generator is finished.  Both walks give what a fresh selector gives."""
    s = S.Sample(size)
    # describing the selector for some length (as the conversion tools do before every frame array) tells the truth and changes nothing
    if s.long_str(n2) != '<Sample %d out of %d>' % (min(size, n2), n2) or str(s) != '<Sample fraction: %d>' % size:
        return False
    # when every frame is selected, first / last / step are 0, n - 1 and 1 (the converters slice with first : last + 1 : step)
    if s.first(n2) != 0:
        return False
    if size >= n2 and (s.last(n2) != n2 - 1 or s.step(n2) != 1):
        return False
    if s != S.Sample(size):
        return False
    g = s.gen_indices(n1)
    head = []
    for _ in range(k):
        try:
            head.append(next(g))
        except StopIteration:
            break
    mid = s.indices(n2)
    cnt, gen2 = s.count(n2), list(s.gen_indices(n2))
    rest = list(g)
    mark.hit()
    want1, want2 = S.Sample(size).indices(n1), S.Sample(size).indices(n2)
    if head + rest != want1 or mid != want2 or gen2 != want2 or cnt != len(want2):
        return False
    # two generators advanced in lock step
    a, b = s.gen_indices(n1), s.gen_indices(n2)
    ga, gb = [], []
    for _ in range(max(n1, n2) + 1):
        for it, acc in ((a, ga), (b, gb)):
            try:
                acc.append(next(it))
            except StopIteration:
                pass
    return ga == want1 and gb == want2 and s == S.Sample(size) and s.count(n1) == len(want1)


def sample_interleaved(size: int, n1: int, k: int, n2: int) -> bool:
    """
    pre: 1 <= size <= 7 and 0 <= n1 <= 12 and 0 <= n2 <= 12 and 0 <= k <= 4
    pre: PART < 0 or size - 1 == PART
    post: _
    """
    size, n1, k, n2 = mark.pick(size, 1, 7), mark.pick(n1, 0, 12), mark.pick(k, 0, 4), mark.pick(n2, 0, 12)
    with mark.untraced():
        # (what a fresh selector gives for one length is decided by the sample_spread obligations)
        return _sample_interleaved(size, n1, k, n2)


def _sample_sel(size, n, first_n=None):
    s = S.Sample(size)
    if first_n is not None:
        s.count(first_n)
        s.indices(first_n)
        s.first(first_n)
    got = s.indices(n)
    mark.hit()
    want = size if size < n else n
    if len(got) != want or s.count(n) != want:
        return False
    if list(s.gen_indices(n)) != got:
        return False
    if want == 0:
        return True
    if got[0] != 0 or s.first(n) != 0:
        return False
    gmin, gmax = None, None
    for i in range(1, want):
        g = got[i] - got[i - 1]
        if g <= 0:
            return False
        if gmin is None or g < gmin:
            gmin = g
        if gmax is None or g > gmax:
            gmax = g
    if got[want - 1] >= n:
        return False
    if gmin is not None and gmax - gmin > 1:
        return False
    return True


def _denote_part(p):
    p = p.strip(' ')
    if p == '' or p == 'None':
        return ('ok', None)
    body = p[1:] if p[:1] in ('+', '-') else p
    if len(body) == 0:
        return ('bad', None)
    for ch in body:
        if ch not in '0123456789':
            return ('bad', None)
    v = 0
    for ch in body:
        v = v * 10 + (ord(ch) - 48)
    return ('ok', -v if p[:1] == '-' else v)


def parse_sel3(s: str) -> bool:
    """
    pre: len(s) <= 3
    pre: all(c in '019,- N' for c in s)
    post: _
    """
    return _parse_sel(s)


def parse_sel(s: str) -> bool:
    """
    pre: len(s) <= 4
    pre: all(c in '0123456789,- Ne' for c in s)
    post: _
    """
    return _parse_sel(s)


TOKENS = ['', 'None', '0', '3', '-2', ' 4 ', 'N', 'one', 'x', '1.5', 'No', '+7']


def parse_tokens(nparts: int, p0: int, p1: int, p2: int, p3: int) -> bool:
    """
    pre: 1 <= nparts <= 4
    pre: 0 <= p0 <= 11 and 0 <= p1 <= 11 and 0 <= p2 <= 11 and 0 <= p3 <= 2
    pre: (nparts >= 2 or p1 == 0) and (nparts >= 3 or p2 == 0) and (nparts >= 4 or p3 == 0)
    pre: PART < 0 or p0 == PART
    post: _
    """
    # option strings assembled from whole tokens (numbers, None, empty, words that are fragments of 'None', signs, decimals): concrete
    # strings, so that the parser runs natively (CrossHair 0.0.110 cannot trace every str operation on symbolic strings)
    nparts, p0 = mark.pick(nparts, 1, 4), mark.pick(p0, 0, 11)
    p1 = mark.pick(p1, 0, 11) if nparts >= 2 else 0
    p2 = mark.pick(p2, 0, 11) if nparts >= 3 else 0
    p3 = mark.pick(p3, 0, 2) if nparts >= 4 else 0
    with mark.untraced():
        return _parse_sel(','.join([TOKENS[p] for p in (p0, p1, p2, p3)][:nparts]))


def _parse_sel(s):
    mark.hit()
    try:
        got = S.create_slice_or_sample(s)
        err = False
    except ValueError:
        got, err = None, True
    parts = s.split(',')
    if len(parts) == 1:
        k, v = _denote_part(parts[0])
        if parts[0].strip(' ') in ('', 'None') or k == 'bad' or v < 1:
            return err
        return (not err) and isinstance(got, S.Sample) and got == S.Sample(v)
    if len(parts) != 3:
        return err
    vals = []
    for p in parts:
        k, v = _denote_part(p)
        if k == 'bad':
            return err
        vals.append(v)
    return (not err) and isinstance(got, S.Slice) and got == S.Slice(vals[0], vals[1], vals[2])
