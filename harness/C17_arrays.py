"""C17 CrossHair harness: array conversion (copying and in place) agrees with element-wise scalar conversion for every array type and shape."""
import logging
logging.disable(logging.CRITICAL)
from engine import mark
from TotalDepth.common import units as U

PAIRS = [('FEET', 'M'), ('M', 'FEET'), ('DEGC', 'DEGF'), ('DEGF', 'DEGK'), ('DEGK', 'DEGC'), ('PSIG', 'PSIA'), ('FEET', 'FEET')]
DTYPES = ['float64', 'float32', 'int64', 'int32', 'int16', 'uint8']
VALUES = [[0, 1, 100], [32, 212, 7], [0, 0, 0], [1, 2, 3, 4]]
_TABLE = {}


def _unit(code):
    if not _TABLE:
        _TABLE.update(U.read_osdd_static_data())       # reads the packaged osdd_units.json (no network)
    return _TABLE[code]


def array_conversion(p: int, d: int, v: int, two_d: bool) -> bool:
    """
    pre: 0 <= p <= 6 and 0 <= d <= 5 and 0 <= v <= 3
    post: _
    """
    p, d, v, two_d = mark.pick(p, 0, 6), mark.pick(d, 0, 5), mark.pick(v, 0, 3), mark.pickb(two_d)
    with mark.untraced():
        return _array_conversion(p, d, v, two_d)


def _array_conversion(p, d, v, two_d):
    import numpy as np
    a, b = _unit(PAIRS[p][0]), _unit(PAIRS[p][1])
    src = np.array(VALUES[v], dtype=DTYPES[d])
    if two_d and len(VALUES[v]) == 4:
        src = src.reshape((2, 2))
    keep = src.copy()
    mark.hit()
    out = U.convert_array(src, a, b)
    if not np.array_equal(src, keep) or out.shape != src.shape:
        return False            # the copying conversion leaves its argument alone
    tol = 1e-5 if DTYPES[d] == 'float32' else 1e-12
    for x, y in zip(keep.flatten(), out.flatten()):
        want = U.convert(float(x), a, b)
        if abs(float(y) - want) > tol * max(1.0, abs(want)):
            return False
    if DTYPES[d].startswith('float'):
        inp = keep.copy()
        U.convert_array_inplace(inp, a, b)
        for x, y in zip(keep.flatten(), inp.flatten()):
            want = U.convert(float(x), a, b)
            if abs(float(y) - want) > tol * max(1.0, abs(want)):
                return False
    return True
