"""C07 CrossHair harnesses: RP66V1 variable-length representation codes on fully symbolic byte strings."""
import logging
import os
logging.disable(logging.CRITICAL)
PART = int(os.environ.get('VERIF_PART', '-1'))
from engine import mark
from TotalDepth.RP66V1.core import pRepCode as RC
from TotalDepth.RP66V1.core.pFile import LogicalData


def _uvari_spec(d, i):
    """(value, size) of the UVARI at d[i:] or None if the bytes do not suffice (RP66V1 B.18)."""
    if i >= len(d):
        return None
    b = d[i]
    if b & 0xc0 == 0x80:
        if i + 2 > len(d):
            return None
        return ((b & 0x7f) << 8) | d[i + 1], 2
    if b & 0xc0 == 0xc0:
        if i + 4 > len(d):
            return None
        return ((b & 0x3f) << 24) | (d[i + 1] << 16) | (d[i + 2] << 8) | d[i + 3], 4
    return b, 1


def _ident_spec(d, i):
    if i >= len(d):
        return None
    n = d[i]
    if i + 1 + n > len(d):
        return None
    return d[i + 1:i + 1 + n], 1 + n


def _fix_len_byte(d, i):
    """d with the length byte at i made concrete by branching (all 256 values are still covered: one branch per value that fits in
    the remaining bytes, one branch for all the values that do not), so that the slices taken by the decoder have concrete bounds."""
    if i >= len(d):
        return d
    room = len(d) - i - 1
    n = d[i]
    if n > room:
        return d
    return d[:i] + bytes([mark.pick(n, 0, room)]) + d[i + 1:]


def _run(fn, data):
    ld = LogicalData(data)
    try:
        return ('ok', fn(ld), ld.index)
    except IndexError:
        return ('short', None, None)


def ident_code(data: bytes) -> bool:
    """
    pre: len(data) <= 10
    pre: PART < 0 or len(data) == PART
    post: _
    """
    mark.hit()
    data = _fix_len_byte(data, 0)
    spec = _ident_spec(data, 0)
    r = _run(RC.IDENT, data)
    if spec is None:
        if r[0] != 'short':
            return False
    elif r != ('ok', spec[0], spec[1]):
        return False
    if len(data) > 0 and RC.IDENT_len(data, 0) != 1 + data[0]:
        return False
    if len(data) == 0 and RC.IDENT_len(data, 0) != 0:
        return False
    return True


UNITS_ALPHABET = (0x6d, 0x2a, 0x00, 0xff, 0x20)      # 'm' (allowed), '*' (not in the RP66V1 units alphabet: logged, still returned), NUL, 0xff, space


def units_code(n: int, lb: bytes, c0: int, c1: int, c2: int) -> bool:
    """
    pre: 0 <= n <= 4 and len(lb) == 1
    pre: 0 <= c0 <= 4 and 0 <= c1 <= 4 and 0 <= c2 <= 4
    pre: PART < 0 or n == PART
    post: _
    """
    # UNITS builds a set of the bytes read (alphabet warning), which forks per byte value: the content bytes come from a 5-letter
    # alphabet here, the length byte keeps all 256 values (decided by how it compares with the bytes available)
    n = mark.pick(n, 0, 4)
    mark.hit()
    ln = lb[0]
    if ln >= n:
        # the length byte (any of the remaining values, symbolic) asks for more than there is: the content does not matter
        data = (lb + b'm*m')[:n]
        return _run(RC.UNITS, data)[0] == 'short'
    cs = [UNITS_ALPHABET[mark.pick(c, 0, 4)] for c in (c0, c1, c2)]
    ln = mark.pick(ln, 0, n)
    with mark.untraced():
        data = (bytes([ln]) + bytes(cs))[:n]
        spec = _ident_spec(data, 0)
        r = _run(RC.UNITS, data)
        if spec is None:
            return r[0] == 'short'
        return r == ('ok', spec[0], spec[1])


def ascii_code(data: bytes) -> bool:
    """
    pre: len(data) <= 10
    pre: PART < 0 or len(data) == PART
    post: _
    """
    mark.hit()
    u = _uvari_spec(data, 0)
    r = _run(RC.ASCII, data)
    if u is None or u[1] + u[0] > len(data):
        return r[0] == 'short'
    return r == ('ok', data[u[1]:u[1] + u[0]], u[1] + u[0])


def obname_objref(data: bytes) -> bool:
    """
    pre: len(data) <= 9
    pre: PART < 0 or len(data) == PART
    post: _
    """
    mark.hit()
    # OBNAME = ORIGIN (UVARI), COPY (USHORT), IDENT
    def obname_spec(d, i):
        u = _uvari_spec(d, i)
        if u is None or i + u[1] >= len(d):
            return None
        c = d[i + u[1]]
        idn = _ident_spec(d, i + u[1] + 1)
        if idn is None:
            return None
        return (u[0], c, idn[0]), u[1] + 1 + idn[1]
    spec = obname_spec(data, 0)
    r = _run(RC.OBNAME, data)
    if spec is None:
        if r[0] != 'short':
            return False
    else:
        if r[0] != 'ok' or (r[1].O, r[1].C, r[1].I) != spec[0] or r[2] != spec[1]:
            return False
        if RC.OBNAME_len(data, 0) != spec[1]:
            return False
    # OBJREF = IDENT (type) + OBNAME
    t = _ident_spec(data, 0)
    spec2 = None
    if t is not None:
        o = obname_spec(data, t[1])
        if o is not None:
            spec2 = (t[0], o[0], t[1] + o[1])
    r2 = _run(RC.OBJREF, data)
    if spec2 is None:
        return r2[0] == 'short'
    return r2[0] == 'ok' and r2[1].T == spec2[0] and (r2[1].N.O, r2[1].N.C, r2[1].N.I) == spec2[1] and r2[2] == spec2[2]


def len_helpers_at_index(data: bytes, i: int) -> bool:
    """
    pre: 2 <= len(data) <= 7 and 1 <= i <= 3 and i < len(data)
    pre: PART < 0 or (len(data) - 2) * 3 + (i - 1) == PART
    post: _
    """
    # the length helpers take a start index: the answer at index i is the answer for the bytes from i on (which is what decoding at i
    # consumes: the index-0 answers are tied to the decoders in the obligations above)
    i = mark.pick(i, 1, 3)
    mark.hit()
    rest = data[i:]
    for fn in (RC.OBNAME_len, RC.IDENT_len, RC.ORIGIN_len, RC.UVARI_len):
        if fn(data, i) != fn(rest, 0):
            return False
    return True


def dtime(data: bytes) -> bool:
    """
    pre: len(data) <= 9
    pre: PART < 0 or len(data) == PART
    post: _
    """
    mark.hit()
    r = _run(RC.DTIME, data)
    if len(data) < 8:
        return r[0] == 'short'
    if r[0] != 'ok' or r[2] != 8:
        return False
    d = r[1]
    return (d.year, d.tz, d.month, d.day, d.hour, d.minute, d.second, d.millisecond) == \
        (1900 + data[0], data[1] >> 4, data[1] & 0xf, data[2], data[3], data[4], data[5], (data[6] << 8) | data[7])
