"""C06 CrossHair harnesses: LIS Type01Plan event plan, LogPass.setFrameSet selection / implied X / reads confined to needed records."""
import logging
import os
logging.disable(logging.CRITICAL)
PART = int(os.environ.get('VERIF_PART', '-1'))
from engine import mark
from TotalDepth.LIS.core import LogPass as LP, Type01Plan


class _Ebs:
    def __init__(self, indirect, up=True):
        self.recordingMode = 1 if indirect else 0
        self.depthRepCode = 73
        self.depthUnits = b'.1IN'
        self.dataType = 0
        self.absentValue = -999.25
        self.frameSpacing = 60
        self.frameSpacingUnits = b'.1IN'
        self.upDown = 1 if up else 255


class _Dsb:
    def __init__(self, i, size):
        self.size = size
        self.subChannels = 1
        self.units = b'    '
        self.mnem = bytes([65 + i]) + b'   '
        self.repCode = 66

    def subChMnem(self, sc):
        return self.mnem


class _Dfsr:
    def __init__(self, sizes, indirect):
        self.ebs = _Ebs(indirect)
        self.dsbBlocks = [_Dsb(i, s) for i, s in enumerate(sizes)]


# ---------------------------------------------------------------------------------------------------- the plan alone

def plan_events(nch: int, z0: int, z1: int, z2: int, indirect: bool, start: int, stop: int, step: int, m0: bool, m1: bool, m2: bool) -> bool:
    """
    pre: 1 <= nch <= 3
    pre: 1 <= z0 <= 3 and 1 <= z1 <= 3 and 1 <= z2 <= 3
    pre: 0 <= start <= 3 and start < stop <= 4 and 1 <= step <= 3
    pre: m0 or (m1 and nch >= 2) or (m2 and nch >= 3)
    pre: PART < 0 or (nch - 1) * 8 + (4 if indirect else 0) + (2 if step > 1 else 0) + (1 if m0 else 0) == PART
    post: _
    """
    sizes = [z0, z1, z2][:nch]
    mask = [m0, m1, m2][:nch]
    plan = Type01Plan.FrameSetPlan(_Dfsr(sizes, indirect))
    chans = [i for i, m in enumerate(mask) if m]
    mark.hit()
    cursor = 0            # byte position inside the record body
    reads = []            # (frame, ch_from, ch_to, offset, size)
    xframe = 0            # frame to which the implied X has been extrapolated
    ind = plan.indirectSize
    for ty, siz, fr, c0, c1 in plan.genEvents(slice(start, stop, step), chans):
        if ty == Type01Plan.EVENT_READ:
            reads.append((fr, c0, c1, cursor, siz))
            cursor += siz
        elif ty == Type01Plan.EVENT_SKIP:
            if siz <= 0:
                return False
            cursor += siz
        else:
            xframe += siz
            if fr != xframe:
                return False
    exp = []
    f = start
    while f < stop:
        for c in chans:
            exp.append((f, c, plan.chOffset(f, c), sizes[c]))
        f += step
    got = []
    for fr, c0, c1, off, siz in reads:
        if c1 is None:
            if off != 0 or siz != ind:          # the implied X sits at the start of the record
                return False
            continue
        o = off
        if c0 is None:
            if off != 0:
                return False
            o += ind
            c0 = 0
        for c in range(c0, c1 + 1):
            got.append((fr, c, o, sizes[c]))
            o += sizes[c]
        if o != off + siz:
            return False
    return got == exp


# ---------------------------------------------------------------------------------------------------- setFrameSet with recording stand-ins

class StubFrameSet:
    """Recording stand-in for FrameSet.FrameSet (numpy storage replaced by lists); same API as used by LogPass.setFrameSet."""
    last = None

    def __init__(self, dfsr, frSl, chS, xAxisIndex):
        self._n = len(range(frSl.start or 0, frSl.stop, frSl.step or 1))
        self._chs = list(range(len(dfsr.dsbBlocks))) if chS is None else sorted(set(chS))
        self._x = [None] * self._n
        self.writes = []
        self._spacing = -60
        self.isIndirectX = dfsr.ebs.recordingMode == 1
        StubFrameSet.last = self

    @property
    def numFrames(self):
        return self._n

    def genExtChIndexes(self):
        return iter(self._chs)

    def xAxisValue(self, fr):
        return self._x[fr]

    def xAxisStep(self, n):
        return n * self._spacing

    def setIndirectX(self, fr, v):
        self._x[fr] = v

    def setFrameBytes(self, by, fr, chFrom, chTo):
        if chFrom is None:
            self._x[fr] = by[0]          # record model: the first element of a record body is its X value
            by = by[1:]
            chFrom = 0
        if chTo is not None:
            self.writes.append((fr, chFrom, chTo, list(by)))


class RecFile:
    """Record-level LIS file model: seekLr / readLrBytes / skipLrBytes over per-record element lists; logs the records touched.
    An indirect X value is one element of size 4."""
    def __init__(self, recs, xs, indirect):
        self.fileId = 'f'
        self.recs, self.xs, self.ind = recs, xs, indirect
        self.cur = None
        self.pos = 0
        self.touched = []

    def seekLr(self, tell):
        self.cur = tell
        self.pos = 0
        self.touched.append(tell)

    def readLrBytes(self, n):
        if self.pos == 0 and n == 2:
            self.pos = 2
            return bytes([0, 0])
        out = []
        if self.ind and self.pos == 2:
            out.append(self.xs[self.cur])
            self.pos += 4
            n -= 4
        st = self.pos - (6 if self.ind else 2)
        if st < 0 or st + n > len(self.recs[self.cur]):
            raise IndexError('read outside the record')
        out.extend(self.recs[self.cur][st:st + n])
        self.pos += n
        return out

    def skipLrBytes(self, n):
        st = self.pos - (6 if self.ind else 2)
        if st + n > len(self.recs[self.cur]):
            raise IndexError('skip outside the record')
        self.pos += n
        return n


def _known_x(sel, nfr, i):
    """C06 known finding: implied X of the frames of a record whose first loaded frame is not the record's first frame, when that frame
    is not the first loaded frame overall."""
    g = sel[i]
    rec = g // nfr
    first_i = None
    for k, gg in enumerate(sel):
        if gg // nfr == rec:
            first_i = k
            break
    return first_i >= 1 and sel[first_i] % nfr >= 1


def _set_frameset(s0, s1, nfr, start, stop, step, indirect, both, second):
    real = LP.FrameSet.FrameSet
    LP.FrameSet.FrameSet = StubFrameSet
    try:
        sizes = [s0, s1]
        fsz = s0 + s1
        lp = LP.LogPass(_Dfsr(sizes, indirect), 'f')
        recs, xs = {}, {}
        g = 0
        for r in range(3):
            tell = 100 * (r + 1)
            recs[tell] = [(g + f) * 10 + b for f in range(nfr) for b in range(fsz)]
            xs[tell] = 1000 - 60 * g
            lp._rle.add(tell, nfr, xs[tell])
            g += nfr
        f = RecFile(recs, xs, indirect)
        chans = None if both else [1]
        if second:
            lp.setFrameSet(f, slice(1, 3 * nfr, 2), None)      # an earlier, different load
            f.touched = []
        lp.setFrameSet(f, slice(start, stop, step), chans)
        fs = StubFrameSet.last
        mark.hit()
        sel = list(range(start, stop, step))
        got = {}
        for fr, c0, c1, by in fs.writes:
            got.setdefault(fr, []).extend(by)
        excl = 'setframeset_implied_x_after_record_boundary' in os.environ.get('VERIF_EXCLUDE', '')
        for i, gfr in enumerate(sel):
            want = [gfr * 10 + b for b in range(fsz)] if both else [gfr * 10 + b for b in range(s0, fsz)]
            if got.get(i) != want:
                return False
            if indirect and fs._x[i] != 1000 - 60 * gfr:
                if not (excl and _known_x(sel, nfr, i)):
                    return False
        # reads only inside the records that contain requested frames
        need = sorted({100 * (gfr // nfr + 1) for gfr in sel})
        return sorted(set(f.touched)) == need
    finally:
        LP.FrameSet.FrameSet = real


def set_frameset_q(s0: int, s1: int, nfr: int, start: int, stop: int, step: int, indirect: bool, both: bool, second: bool) -> bool:
    """
    pre: s0 == 1 and s1 == 2
    pre: 2 <= nfr <= 3
    pre: 0 <= start < stop <= 3 * nfr
    pre: 1 <= step <= 3
    pre: PART < 0 or (step - 1) * 16 + (nfr - 2) * 8 + (4 if indirect else 0) + (2 if both else 0) + (1 if second else 0) == PART
    post: _
    """
    s0, s1, nfr, start, stop, step = 1, 2, mark.pick(nfr, 2, 3), mark.pick(start, 0, 8), mark.pick(stop, 1, 9), mark.pick(step, 1, 3)
    return _set_frameset(s0, s1, nfr, start, stop, step, mark.pickb(indirect), mark.pickb(both), mark.pickb(second))


def set_frameset(s0: int, s1: int, nfr: int, start: int, stop: int, step: int, indirect: bool, both: bool, second: bool) -> bool:
    """
    pre: 1 <= s0 <= 2 and 1 <= s1 <= 2
    pre: 2 <= nfr <= 3
    pre: 0 <= start < stop <= 3 * nfr
    pre: 1 <= step <= 3
    pre: PART < 0 or (nfr - 2) * 8 + (4 if indirect else 0) + (2 if both else 0) + (1 if second else 0) == PART
    post: _
    """
    s0, s1, nfr, start, stop, step = mark.pick(s0, 1, 2), mark.pick(s1, 1, 2), mark.pick(nfr, 2, 3), mark.pick(start, 0, 8), mark.pick(stop, 1, 9), mark.pick(step, 1, 3)
    return _set_frameset(s0, s1, nfr, start, stop, step, mark.pickb(indirect), mark.pickb(both), mark.pickb(second))
