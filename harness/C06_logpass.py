"""C06 CrossHair harnesses: LIS Type01Plan event plan, LogPass.setFrameSet selection / implied X / reads confined to needed records."""
import logging
import os
logging.disable(logging.CRITICAL)
PART = int(os.environ.get('VERIF_PART', '-1'))
from engine import mark
from TotalDepth.LIS.core import LogPass as LP, Type01Plan


class _Ebs:
    def __init__(self, indirect, up=True):
        self.recordingMode = 1 if indirect else 0
        self.depthRepCode = 73
        self.depthUnits = b'.1IN'
        self.dataType = 0
        self.absentValue = -999.25
        self.frameSpacing = 60
        self.frameSpacingUnits = b'.1IN'
        self.upDown = 1 if up else 255


class _Dsb:
    def __init__(self, i, size):
        self.size = size
        self.subChannels = 1
        self.units = b'    '
        self.mnem = bytes([65 + i]) + b'   '
        self.repCode = 66

    def subChMnem(self, sc):
        return self.mnem


class _Dfsr:
    def __init__(self, sizes, indirect):
        self.ebs = _Ebs(indirect)
        self.dsbBlocks = [_Dsb(i, s) for i, s in enumerate(sizes)]


# ---------------------------------------------------------------------------------------------------- the plan alone

def plan_events(nch: int, z0: int, z1: int, z2: int, indirect: bool, start: int, stop: int, step: int, m0: bool, m1: bool, m2: bool) -> bool:
    """
    pre: 1 <= nch <= 3
    pre: 1 <= z0 <= 3 and 1 <= z1 <= 3 and 1 <= z2 <= 3
    pre: 0 <= start <= 3 and start < stop <= 4 and 1 <= step <= 3
    pre: m0 or (m1 and nch >= 2) or (m2 and nch >= 3)
    pre: (nch >= 2 or (z1 == 1 and not m1)) and (nch >= 3 or (z2 == 1 and not m2))
    pre: PART < 0 or (nch - 1) * 8 + (4 if indirect else 0) + (2 if step > 1 else 0) + (1 if m0 else 0) == PART
    post: _
    """
    # every selector is made concrete by branching (the path tree still has to exhaust all combinations), the plan then runs natively
    nch, z0, z1, z2 = mark.pick(nch, 1, 3), mark.pick(z0, 1, 3), mark.pick(z1, 1, 3), mark.pick(z2, 1, 3)
    start, stop, step = mark.pick(start, 0, 3), mark.pick(stop, 1, 4), mark.pick(step, 1, 3)
    indirect, m0, m1, m2 = mark.pickb(indirect), mark.pickb(m0), mark.pickb(m1), mark.pickb(m2)
    with mark.untraced():
        return _plan_events(nch, z0, z1, z2, indirect, start, stop, step, m0, m1, m2)


def _plan_events(nch, z0, z1, z2, indirect, start, stop, step, m0, m1, m2):
    sizes = [z0, z1, z2][:nch]
    mask = [m0, m1, m2][:nch]
    plan = Type01Plan.FrameSetPlan(_Dfsr(sizes, indirect))
    chans = [i for i, m in enumerate(mask) if m]
    mark.hit()
    cursor = 0            # byte position inside the record body
    reads = []            # (frame, ch_from, ch_to, offset, size)
    xframe = 0            # frame to which the implied X has been extrapolated
    ind = plan.indirectSize
    for ty, siz, fr, c0, c1 in plan.genEvents(slice(start, stop, step), chans):
        if ty == Type01Plan.EVENT_READ:
            reads.append((fr, c0, c1, cursor, siz))
            cursor += siz
        elif ty == Type01Plan.EVENT_SKIP:
            if siz <= 0:
                return False
            cursor += siz
        else:
            xframe += siz
            if fr != xframe:
                return False
    exp = []
    f = start
    while f < stop:
        for c in chans:
            exp.append((f, c, plan.chOffset(f, c), sizes[c]))
        f += step
    got = []
    for fr, c0, c1, off, siz in reads:
        if c1 is None:
            if off != 0 or siz != ind:          # the implied X sits at the start of the record
                return False
            continue
        o = off
        if c0 is None:
            if off != 0:
                return False
            o += ind
            c0 = 0
        for c in range(c0, c1 + 1):
            got.append((fr, c, o, sizes[c]))
            o += sizes[c]
        if o != off + siz:
            return False
    return got == exp


# ---------------------------------------------------------------------------------------------------- setFrameSet with recording stand-ins

class StubFrameSet:
    """Recording stand-in for FrameSet.FrameSet (numpy storage replaced by lists); same API as used by LogPass.setFrameSet."""
    last = None

    def __init__(self, dfsr, frSl, chS, xAxisIndex):
        self._n = len(range(frSl.start or 0, frSl.stop, frSl.step or 1))
        self._chs = list(range(len(dfsr.dsbBlocks))) if chS is None else sorted(set(chS))
        self._x = [None] * self._n
        self.writes = []
        self._spacing = -60
        self.isIndirectX = dfsr.ebs.recordingMode == 1
        StubFrameSet.last = self

    @property
    def numFrames(self):
        return self._n

    def genExtChIndexes(self):
        return iter(self._chs)

    def xAxisValue(self, fr):
        return self._x[fr]

    def xAxisStep(self, n):
        return n * self._spacing

    def setIndirectX(self, fr, v):
        self._x[fr] = v

    def setFrameBytes(self, by, fr, chFrom, chTo):
        if chFrom is None:
            self._x[fr] = by[0]          # record model: the first element of a record body is its X value
            by = by[1:]
            chFrom = 0
        if chTo is not None:
            self.writes.append((fr, chFrom, chTo, list(by)))


class RecFile:
    """Record-level LIS file model: seekLr / readLrBytes / skipLrBytes over per-record element lists; logs the records touched.
    An indirect X value is one element of size 4."""
    def __init__(self, recs, xs, indirect):
        self.fileId = 'f'
        self.recs, self.xs, self.ind = recs, xs, indirect
        self.cur = None
        self.pos = 0
        self.touched = []

    def seekLr(self, tell):
        self.cur = tell
        self.pos = 0
        self.touched.append(tell)

    def readLrBytes(self, n):
        if self.pos == 0 and n == 2:
            self.pos = 2
            return bytes([0, 0])
        out = []
        if self.ind and self.pos == 2:
            out.append(self.xs[self.cur])
            self.pos += 4
            n -= 4
        st = self.pos - (6 if self.ind else 2)
        if st < 0 or st + n > len(self.recs[self.cur]):
            raise IndexError('read outside the record')
        out.extend(self.recs[self.cur][st:st + n])
        self.pos += n
        return out

    def skipLrBytes(self, n):
        st = self.pos - (6 if self.ind else 2)
        if st + n > len(self.recs[self.cur]):
            raise IndexError('skip outside the record')
        self.pos += n
        return n


def _known_x(sel, nfr, i):
    """C06 known finding: implied X of the frames of a record whose first loaded frame is not the record's first frame, when that frame
    is not the first loaded frame overall."""
    g = sel[i]
    rec = g // nfr
    first_i = None
    for k, gg in enumerate(sel):
        if gg // nfr == rec:
            first_i = k
            break
    return first_i >= 1 and sel[first_i] % nfr >= 1


def _set_frameset(s0, s1, nfr, start, stop, step, indirect, both, second):
    real = LP.FrameSet.FrameSet
    LP.FrameSet.FrameSet = StubFrameSet
    try:
        sizes = [s0, s1]
        fsz = s0 + s1
        lp = LP.LogPass(_Dfsr(sizes, indirect), 'f')
        recs, xs = {}, {}
        g = 0
        for r in range(3):
            tell = 100 * (r + 1)
            recs[tell] = [(g + f) * 10 + b for f in range(nfr) for b in range(fsz)]
            xs[tell] = 1000 - 60 * g
            lp._rle.add(tell, nfr, xs[tell])
            g += nfr
        f = RecFile(recs, xs, indirect)
        chans = None if both else [1]
        if second:
            lp.setFrameSet(f, slice(1, 3 * nfr, 2), None)      # an earlier, different load
            f.touched = []
        lp.setFrameSet(f, slice(start, stop, step), chans)
        fs = StubFrameSet.last
        mark.hit()
        sel = list(range(start, stop, step))
        got = {}
        for fr, c0, c1, by in fs.writes:
            got.setdefault(fr, []).extend(by)
        excl = 'setframeset_implied_x_after_record_boundary' in os.environ.get('VERIF_EXCLUDE', '')
        for i, gfr in enumerate(sel):
            want = [gfr * 10 + b for b in range(fsz)] if both else [gfr * 10 + b for b in range(s0, fsz)]
            if got.get(i) != want:
                return False
            if indirect:
                # strict: the recorded X; while the finding is listed: exactly the X its documented extrapolation yields
                want_x = _known_x_values(sel, [nfr, nfr, nfr], lambda g_: 1000 - 60 * g_, -60)[i] if excl else 1000 - 60 * gfr
                if fs._x[i] != want_x:
                    return False
        # reads only inside the records that contain requested frames
        need = sorted({100 * (gfr // nfr + 1) for gfr in sel})
        return sorted(set(f.touched)) == need
    finally:
        LP.FrameSet.FrameSet = real


def set_frameset_q(s0: int, s1: int, nfr: int, start: int, stop: int, step: int, indirect: bool, both: bool, second: bool) -> bool:
    """
    pre: s0 == 1 and s1 == 2
    pre: 2 <= nfr <= 3
    pre: 0 <= start < stop <= 3 * nfr
    pre: 1 <= step <= 3
    pre: PART < 0 or (step - 1) * 16 + (nfr - 2) * 8 + (4 if indirect else 0) + (2 if both else 0) + (1 if second else 0) == PART
    post: _
    """
    s0, s1, nfr, start, stop, step = 1, 2, mark.pick(nfr, 2, 3), mark.pick(start, 0, 8), mark.pick(stop, 1, 9), mark.pick(step, 1, 3)
    indirect, both, second = mark.pickb(indirect), mark.pickb(both), mark.pickb(second)
    with mark.untraced():
        return _set_frameset(s0, s1, nfr, start, stop, step, indirect, both, second)


def set_frameset(s0: int, s1: int, nfr: int, start: int, stop: int, step: int, indirect: bool, both: bool, second: bool) -> bool:
    """
    pre: 1 <= s0 <= 2 and 1 <= s1 <= 2
    pre: 2 <= nfr <= 3
    pre: 0 <= start < stop <= 3 * nfr
    pre: 1 <= step <= 3
    pre: PART < 0 or (nfr - 2) * 8 + (4 if indirect else 0) + (2 if both else 0) + (1 if second else 0) == PART
    post: _
    """
    s0, s1, nfr, start, stop, step = mark.pick(s0, 1, 2), mark.pick(s1, 1, 2), mark.pick(nfr, 2, 3), mark.pick(start, 0, 8), mark.pick(stop, 1, 9), mark.pick(step, 1, 3)
    indirect, both, second = mark.pickb(indirect), mark.pickb(both), mark.pickb(second)
    with mark.untraced():
        return _set_frameset(s0, s1, nfr, start, stop, step, indirect, both, second)


# ---------------------------------------------------------------------------------------------------- end to end: reference-encoded LIS file -> FileIndex -> LogPass -> real FrameSet

from engine.symio import SymFile, shim_structs
from spec import lis_lr_ref as L
from TotalDepth.LIS.core import File, FileIndexer, PhysRec, TifMarker, LogiRec

CHS = [(b'DEPT', b'FEET', 4, 1, 73), (b'GR  ', b'GAPI', 4, 1, 73), (b'SP  ', b'MV  ', 2, 1, 79)]


def _xmodel(var):
    """var bit 0: down log (X increases); bit 1: frame spacing declared in other units than the X axis: 5 FEET = 600 tenth-inches
    (the conversion 5 * 0.3048 / 0.00254 is exact in doubles, so the implied X values stay exact)."""
    step = 600 if var & 2 else 60
    return (lambda g: 1000 + step * g) if var & 1 else (lambda g: 1000 - step * g)


def _build(frames_per_rec, indirect, tif, table, maxpl, var=0, pad=0):
    chs = CHS[1:] if indirect else CHS
    xof = _xmodel(var)
    lrs = [L.file_head_tail(128)]
    kinds = [128]
    if table:
        lrs.append(L.table_record(34, b'CONS', [(b'BS  ', [(b'VALU', 73, L.i32(85), b'IN  ')])]))
        kinds.append(34)
    if var & 4:
        # a format specification that is followed by no data at all (e.g. re-issued by the acquisition system), then the one that has the data
        lrs.append(L.dfsr(chs, indirect, up=not (var & 1), spacing=5 if var & 2 else 60, spacing_units=b'FEET' if var & 2 else b'.1IN'))
    lrs.append(L.dfsr(chs, indirect, up=not (var & 1), spacing=5 if var & 2 else 60, spacing_units=b'FEET' if var & 2 else b'.1IN'))
    kinds.append(64)
    g = 0
    model = []
    for n in frames_per_rec:
        frames = []
        x0 = xof(g)
        for f in range(n):
            x = xof(g)
            row = [x, 7 * g + 1, -g]
            model.append(row)
            fb = (b'' if indirect else L.i32(x)) + L.i32(row[1]) + L.i16(row[2])
            frames.append(fb)
            g += 1
        lrs.append(L.data_record(frames, L.i32(x0) if indirect else None))
    lrs.append(L.file_head_tail(129))
    kinds.append(129)
    data, pos = L.physical(lrs, tif, maxpl, pad)
    return data, pos, kinds, model


def _positions_of(kinds, pos, nrec):
    """positions of the indexed (non-data) records: data records sit between the DFSR and the trailer."""
    out = []
    i = 0
    for k in kinds:
        out.append(pos[i])
        i += 1
        if k == 64:
            i += nrec
    return out


def index_structure(nrec: int, f0: int, f1: int, f2: int, indirect: bool, tif: bool, table: bool, split: bool, var: int = 0) -> bool:
    """
    pre: 1 <= nrec <= 3
    pre: 1 <= f0 <= 3 and 1 <= f1 <= 3 and 1 <= f2 <= 3
    pre: 0 <= var <= 3
    pre: PART < 0 or (8 if indirect else 0) + (4 if tif else 0) + (2 if table else 0) + (1 if split else 0) == PART
    post: _
    """
    nrec, f0, f1, f2 = mark.pick(nrec, 1, 3), mark.pick(f0, 1, 3), mark.pick(f1, 1, 3), mark.pick(f2, 1, 3)
    indirect, tif, table, split, var = mark.pickb(indirect), mark.pickb(tif), mark.pickb(table), mark.pickb(split), mark.pick(var, 0, 3)
    with mark.untraced():
        return _index_structure(nrec, f0, f1, f2, indirect, tif, table, split, var)


def _index_structure(nrec, f0, f1, f2, indirect, tif, table, split, var=0):
    fpr = [f0, f1, f2][:nrec]
    # split files without TIF markers may also be null-padded to a multiple of 2 or 4 bytes after every physical record (and opened so):
    # physical records of 25 bytes then need 3 (or 1) pad bytes, shorter last ones 0..3
    pad = [0, 2, 4][(f0 + f1 + var) % 3] if (split and not tif) else 0
    data, pos, kinds, model = _build(fpr, indirect, tif, table, (21 if pad else 24) if split else None, var, pad)
    f = File.FileRead(SymFile(data), 'id', False, pad_modulo=pad) if pad else File.FileRead(SymFile(data), 'id', False)
    idx = FileIndexer.FileIndex(f)
    mark.hit()
    if list(idx.lrTypeS) != kinds:
        return False
    if [e.tell for e in idx] != _positions_of(kinds, pos, nrec):
        return False
    if table and idx[1].name != b'CONS':
        return False
    passes = list(idx.genLogPasses())
    if len(passes) != 1 or idx.numLogPasses() != 1:
        return False
    lp = passes[0].logPass
    tot = 0
    for n in fpr:
        tot += n
    if lp.rle.totalFrames() != tot:
        return False
    if lp.xAxisFirstVal != 1000:
        return False
    # every frame number maps to the record that holds it
    dpos = pos[len(kinds) - 2 + 0:len(kinds) - 2 + nrec] if False else pos[kinds.index(64) + 1:kinds.index(64) + 1 + nrec]
    g = 0
    for r, n in enumerate(fpr):
        for o in range(n):
            if lp.rle.tellLrForFrame(g) != (dpos[r], o):
                return False
            g += 1
    # frames are evenly spaced in X here whatever the frames-per-record pattern: last X (and the spacing it is derived from) are exact
    if nrec > 1 and lp.xAxisLastVal != _xmodel(var)(tot - 1):
        return False
    if nrec > 1 and lp.xAxisSpacing != _xmodel(var)(1) - _xmodel(var)(0):
        return False
    return True


def _known_x_values(sel, fpr, xtrue, spacing):
    """The implied X of every loaded frame as LogPass.setFrameSet computes it today (known finding
    setframeset_implied_x_after_record_boundary), in closed form: the first loaded frame of a record is extrapolated by its offset in the
    record, later frames of the record by the step - but from the X of the PREVIOUSLY LOADED frame instead of the record's own X (except for
    the very first loaded frame).  xtrue(g) is the recorded X of frame g; spacing the signed frame spacing in X units."""
    starts = []
    g = 0
    for n in fpr:
        starts.append(g)
        g += n

    def rec_of(fr):
        r = 0
        for k, st in enumerate(starts):
            if fr >= st:
                r = k
        return r
    out = []
    prev_rec = None
    for i, g in enumerate(sel):
        r = rec_of(g)
        off = g - starts[r]
        if r != prev_rec:
            if off == 0:
                x = xtrue(g)
            elif i == 0:
                x = xtrue(starts[r]) + spacing * off
            else:
                x = out[i - 1] + spacing * off
        else:
            x = out[i - 1] + spacing * (g - sel[i - 1])
        out.append(x)
        prev_rec = r
    return out


def _known_x_var(sel, fpr, i):
    starts = []
    g = 0
    for n in fpr:
        starts.append(g)
        g += n

    def rec_of(fr):
        r = 0
        for k, s in enumerate(starts):
            if fr >= s:
                r = k
        return r
    rec = rec_of(sel[i])
    first_i = None
    for k, gg in enumerate(sel):
        if rec_of(gg) == rec:
            first_i = k
            break
    return first_i >= 1 and sel[first_i] - starts[rec] >= 1


def _load(fpr, indirect, tif, start, stop, step, m1, m2, second, var=0):
    data, pos, kinds, model = _build(fpr, indirect, tif, False, None, var)
    sf = SymFile(data)
    f = File.FileRead(sf, 'id', False)
    idx = FileIndexer.FileIndex(f)
    lp = list(idx.genLogPasses())[0].logPass
    nch = 2 if indirect else 3
    # external channel indexes: channel 0 = X for direct X files
    chans = [c for c, m in ((nch - 2, m1), (nch - 1, m2)) if m]
    if not indirect:
        chans = [0] + chans
    if second:
        lp.setFrameSet(f, slice(0, len(model), 2), None)
    sf.reads = []
    lp.setFrameSet(f, slice(start, stop, step), chans)
    mark.hit()
    fs = lp.frameSet
    sel = list(range(start, stop, step))
    if fs.numFrames != len(sel):
        return False
    excl = 'setframeset_implied_x_after_record_boundary' in os.environ.get('VERIF_EXCLUDE', '')
    cols = [c for c, m in ((1, m1), (2, m2)) if m]
    if not indirect:
        cols = [0] + cols
    for i, g in enumerate(sel):
        row = [float(v) for v in fs.frame(i)]
        if row != [float(model[g][c]) for c in cols]:
            return False
        if indirect:
            if excl:
                # listed finding, tolerated exactly: the X the documented (wrong) extrapolation yields
                step_x = model[1][0] - model[0][0] if len(model) > 1 else 0
                if fs.xAxisValue(i) != _known_x_values(sel, fpr, lambda g_: model[g_][0], step_x)[i]:
                    return False
            elif fs.xAxisValue(i) != model[g][0]:
                return False
        elif fs.xAxisValue(i) != model[g][0]:
            return False
    # reads only inside the data records that contain requested frames
    dpos = pos[kinds.index(64) + 1:kinds.index(64) + 1 + len(fpr)]
    ends = dpos[1:] + [pos[kinds.index(64) + 1 + len(fpr)]]
    need = []
    g = 0
    for r, n in enumerate(fpr):
        if any(g <= s < g + n for s in sel):
            need.append((dpos[r], ends[r]))
        g += n
    for a, b in sf.reads:
        if not any(lo <= a and b <= hi for lo, hi in need):
            return False
    return True


def load_slices(f0: int, f1: int, f2: int, indirect: bool, tif: bool, start: int, stop: int, step: int, m1: bool, m2: bool, second: bool, var: int = 0) -> bool:
    """
    pre: 1 <= f0 <= 2 and 2 <= f1 <= 3 and 1 <= f2 <= 2
    pre: 0 <= start < stop <= f0 + f1 + f2 and 1 <= step <= 3
    pre: m1 or m2
    pre: 0 <= var <= 3
    pre: PART < 0 or (16 if indirect else 0) + (8 if tif else 0) + (4 if second else 0) + (2 if m1 else 0) + (1 if m2 else 0) == PART
    post: _
    """
    f0, f1, f2 = mark.pick(f0, 1, 2), mark.pick(f1, 2, 3), mark.pick(f2, 1, 2)
    start, stop, step = mark.pick(start, 0, 6), mark.pick(stop, 1, 7), mark.pick(step, 1, 3)
    indirect, tif, m1, m2, second, var = mark.pickb(indirect), mark.pickb(tif), mark.pickb(m1), mark.pickb(m2), mark.pickb(second), mark.pick(var, 0, 3)
    with mark.untraced():
        return _load([f0, f1, f2], indirect, tif, start, stop, step, m1, m2, second, var)


def load_slices_q(f1: int, indirect: bool, tif: bool, start: int, stop: int, step: int, m1: bool, m2: bool, second: bool, var: int = 0) -> bool:
    """
    pre: 2 <= f1 <= 3
    pre: 0 <= start < stop <= 3 + f1 and 1 <= step <= 3
    pre: m1 or m2
    pre: 0 <= var <= 3 and (indirect or var <= 1)
    pre: PART < 0 or (16 if indirect else 0) + (8 if tif else 0) + (4 if second else 0) + (2 if m1 else 0) + (1 if m2 else 0) == PART
    post: _
    """
    f1 = mark.pick(f1, 2, 3)
    start, stop, step = mark.pick(start, 0, 5), mark.pick(stop, 1, 6), mark.pick(step, 1, 3)
    indirect, tif, m1, m2, second, var = mark.pickb(indirect), mark.pickb(tif), mark.pickb(m1), mark.pickb(m2), mark.pickb(second), mark.pick(var, 0, 3)
    with mark.untraced():
        return _load([2, f1, 1], indirect, tif, start, stop, step, m1, m2, second, var)


shim_structs(PhysRec)
shim_structs(TifMarker)


# ---------------------------------------------------------------------------------------------------- wide log pass: every channel subset of 12 channels

WIDE = 12


def _build_wide(indirect):
    chs = [(b'DEPT', b'.1IN', 4, 1, 73)] + [(b'C%03d' % k, b'GAPI', 4, 1, 73) for k in range(1, WIDE)]
    if indirect:
        chs = chs[1:]
    lrs = [L.file_head_tail(128), L.dfsr(chs, indirect)]
    model = []
    g = 0
    for n in (2, 2):
        frames = []
        x0 = 1000 - 60 * g
        for f in range(n):
            row = [1000 - 60 * g] + [100 * k + g for k in range(1, WIDE)]
            model.append(row)
            frames.append(b''.join(L.i32(v) for v in (row[1:] if indirect else row)))
            g += 1
        lrs.append(L.data_record(frames, L.i32(x0) if indirect else None))
    lrs.append(L.file_head_tail(129))
    data, pos = L.physical(lrs, False, None)
    return data, model


def _load_wide(mask, indirect, step):
    data, model = _build_wide(indirect)
    f = File.FileRead(SymFile(data), 'id', False)
    idx = FileIndexer.FileIndex(f)
    lp = list(idx.genLogPasses())[0].logPass
    nch = WIDE - 1 if indirect else WIDE
    chans = [c for c in range(nch) if (mask >> c) & 1]
    lp.setFrameSet(f, slice(0, 4, step), chans)
    mark.hit()
    fs = lp.frameSet
    sel = list(range(0, 4, step))
    if fs.numFrames != len(sel):
        return False
    # model columns: external channel c is model column c (+1 when X is implied); a direct X channel 0 is always loaded
    cols = [c + 1 for c in chans] if indirect else sorted(set([0] + chans))
    for i, g in enumerate(sel):
        if [float(v) for v in fs.frame(i)] != [float(model[g][c]) for c in cols]:
            return False
        if fs.xAxisValue(i) != model[g][0]:
            return False
    return True


def load_wide_subsets(mask: int, indirect: bool, step: int) -> bool:
    """
    pre: 1 <= mask < 4096 and 1 <= step <= 2
    pre: not indirect or mask < 2048
    pre: PART < 0 or (mask // 256) * 2 + (1 if indirect else 0) == PART
    post: _
    """
    hi = mark.pick(mask // 256, 0, 15)
    lo = mark.pick(mask % 256, 0, 255)
    indirect, step = mark.pickb(indirect), mark.pick(step, 1, 2)
    with mark.untraced():
        return _load_wide(hi * 256 + lo, indirect, step)


# ---------------------------------------------------------------------------------------------------- two log passes in one logical file: normal (type 0) and alternate (type 1) data

def _two_passes(k, t0, t1, t2, t3, tif):
    """header, DFSR A (normal data), k records of A, DFSR B (alternate data), then 4 records of types t0..t3 (0 = A, 1 = B), trailer:
    both log passes keep collecting their records, whichever DFSR came last."""
    chs_a, chs_b = CHS, [CHS[0], (b'CAL ', b'IN  ', 4, 1, 73)]
    lrs = [L.file_head_tail(128), L.dfsr(chs_a, False, data_type=0)]
    kinds = [128, 64]
    model = {0: [], 1: []}
    recpos = {0: [], 1: []}

    def rec(t):
        frames = []
        for f in range(2):
            g = len(model[t])
            row = [1000 - 60 * g, 7 * g + 1, -g] if t == 0 else [5000 - 60 * g, 3 * g + 2]
            model[t].append(row)
            frames.append(L.i32(row[0]) + L.i32(row[1]) + (L.i16(row[2]) if t == 0 else b''))
        recpos[t].append(len(lrs))
        lrs.append(L.data_record(frames, None, data_type=t))
    for _ in range(k):
        rec(0)
    lrs.append(L.dfsr(chs_b, False, data_type=1))
    kinds.append(64)
    for t in (t0, t1, t2, t3):
        rec(t)
    lrs.append(L.file_head_tail(129))
    kinds.append(129)
    data, pos = L.physical(lrs, tif, None)
    sf = SymFile(data)
    f = File.FileRead(sf, 'id', False)
    idx = FileIndexer.FileIndex(f)
    mark.hit()
    if list(idx.lrTypeS) != kinds:
        return False
    passes = [p.logPass for p in idx.genLogPasses()]
    if len(passes) != 2:
        return False
    for t, lp in enumerate(passes):
        rows = model[t]
        if lp.rle.totalFrames() != len(rows):
            return False
        if len(rows) == 0:
            continue
        if lp.xAxisFirstVal != rows[0][0]:
            return False
        g = 0
        for ri in recpos[t]:
            for o in range(2):
                if lp.rle.tellLrForFrame(g) != (pos[ri], o):
                    return False
                g += 1
        lp.setFrameSet(f, slice(0, len(rows), 1), None)
        fs = lp.frameSet
        if fs.numFrames != len(rows):
            return False
        for i, row in enumerate(rows):
            if [float(v) for v in fs.frame(i)] != [float(v) for v in row]:
                return False
        if len(rows) >= 3:
            lp.setFrameSet(f, slice(1, len(rows), 2), [1])
            fs = lp.frameSet
            sel = list(range(1, len(rows), 2))
            for i, g_ in enumerate(sel):
                if [float(v) for v in fs.frame(i)] != [float(rows[g_][0]), float(rows[g_][1])]:
                    return False
    return True


def two_log_passes(k: int, t0: bool, t1: bool, t2: bool, t3: bool, tif: bool) -> bool:
    """
    pre: 0 <= k <= 2
    post: _
    """
    k = mark.pick(k, 0, 2)
    t0, t1, t2, t3, tif = mark.pickb(t0), mark.pickb(t1), mark.pickb(t2), mark.pickb(t3), mark.pickb(tif)
    with mark.untraced():
        return _two_passes(k, int(t0), int(t1), int(t2), int(t3), tif)


# ---------------------------------------------------------------------------------------------------- channels with several samples AND bursts per frame

def _samples_bursts(samples, bursts, step, sub):
    """DEPT, WF (samples x bursts values of 2 bytes per frame, recorded sample-major as LIS-79 prescribes), CAL; 2 records of 2 frames.
    Every (frame, sample, burst) address gives the recorded value - full load, stepped load and a load of WF alone."""
    nv = samples * bursts
    chs = [(b'DEPT', b'.1IN', 4, 1, 73), (b'WF  ', b'MV  ', 2 * nv, samples, 79), (b'CAL ', b'IN  ', 4, 1, 73)]
    lrs = [L.file_head_tail(128), L.dfsr(chs, False)]
    rows = []
    g = 0
    for _ in range(2):
        frames = []
        for f in range(2):
            wf = [1000 * g + 10 * sa + bu for sa in range(samples) for bu in range(bursts)]
            rows.append((1000 - 60 * g, wf, 7 * g + 1))
            frames.append(L.i32(1000 - 60 * g) + b''.join(L.i16(v) for v in wf) + L.i32(7 * g + 1))
            g += 1
        lrs.append(L.data_record(frames, None))
    lrs.append(L.file_head_tail(129))
    data, pos = L.physical(lrs, False, None)
    f = File.FileRead(SymFile(data), 'id', False)
    lp = list(FileIndexer.FileIndex(f).genLogPasses())[0].logPass
    lp.setFrameSet(f, slice(0, 4, step), [1] if sub else None)
    mark.hit()
    fs = lp.frameSet
    sel = list(range(0, 4, step))
    if fs.numFrames != len(sel):
        return False
    for i, g_ in enumerate(sel):
        x, wf, cal = rows[g_]
        for sa in range(samples):
            for bu in range(bursts):
                if fs.value(i, 1, 0, sa, bu) != wf[sa * bursts + bu]:
                    return False
        if [float(v) for v in fs.frame_channel_sub_channel_values(i, 1, 0)] != [float(v) for v in wf]:
            return False
        if not sub and fs.value(i, 2, 0, 0, 0) != cal:
            return False
        if fs.xAxisValue(i) != x:
            return False
    return True


def samples_and_bursts(samples: int, bursts: int, step: int, sub: bool) -> bool:
    """
    pre: 1 <= samples <= 3 and 1 <= bursts <= 3 and 1 <= step <= 2
    post: _
    """
    samples, bursts, step, sub = mark.pick(samples, 1, 3), mark.pick(bursts, 1, 3), mark.pick(step, 1, 2), mark.pickb(sub)
    with mark.untraced():
        return _samples_bursts(samples, bursts, step, sub)
