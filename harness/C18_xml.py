"""C18 CrossHair harnesses: element nesting, XHTML stream, RLE index entries - output parsed back by expat."""
import io
import logging
import os
logging.disable(logging.CRITICAL)
PART = int(os.environ.get('VERIF_PART', '-1'))
import xml.etree.ElementTree as ET
from engine import mark
from TotalDepth.util import XmlWrite
from TotalDepth.common import Rle

NAMES = ['a', 'b-c.d', 'Row']
ATTRS = [{}, {'k': 'v<&>"\''}, {'z': '1', 'a': 'two words', 'm': 'é中'}]
TEXTS = ['plain', '<&> "quoted" \'single\'', 'tab\there', 'é中\U0001F600 ]]>']


def _strip_ws(e):
    """Indentation whitespace is only written where there is no mixed content; compare structure and non-blank text."""
    return (e.tag, dict(e.attrib), (e.text or '').strip(), [_strip_ws(c) for c in e])


def _run_ops(ops):
    """ops: list of (kind, i).  Returns (text, model tree) where the model is what a faithful writer must have produced."""
    f = io.StringIO()
    root = None
    stack = []
    with XmlWrite.XmlStream(f) as xs:
        for kind, i in ops:
            if kind == 0:
                if root is not None and not stack:
                    continue            # a second root element is not a well-formed document: not a legal use
                xs.startElement(NAMES[i % 3], ATTRS[i // 3 % 3])
                node = [NAMES[i % 3], dict(ATTRS[i // 3 % 3]), '', []]
                if stack:
                    stack[-1][3].append(node)
                else:
                    root = node
                stack.append(node)
            elif kind == 1:
                if not stack:
                    continue
                if stack[-1][3]:
                    continue            # text after a child is tail text; the model keeps to leading text
                xs.characters(TEXTS[i % 4])
                stack[-1][2] += TEXTS[i % 4]
            elif kind == 2:
                if not stack:
                    continue
                xs.endElement(stack[-1][0])
                stack.pop()
            else:
                break                   # leave the with block: __exit__ closes what is open
    return f.getvalue(), root


def _model(n):
    return (n[0], n[1], n[2].strip(), [_model(c) for c in n[3]])


def op_structure(n: int, k0: int, k1: int, k2: int, k3: int) -> bool:
    """
    pre: 1 <= n <= 4
    pre: 0 <= k0 <= 3 and 0 <= k1 <= 3 and 0 <= k2 <= 3 and 0 <= k3 <= 3
    post: _
    """
    return _op_sequences([(k0, 0), (k1, 4), (k2, 8), (k3, 1)][:n])


def op_structure5(n: int, k0: int, k1: int, k2: int, k3: int, k4: int, k5: int) -> bool:
    """
    pre: 5 <= n <= 6
    pre: 0 <= k0 <= 3 and 0 <= k1 <= 3 and 0 <= k2 <= 3 and 0 <= k3 <= 3 and 0 <= k4 <= 3 and 0 <= k5 <= 3
    post: _
    """
    return _op_sequences([(k0, 0), (k1, 4), (k2, 8), (k3, 1), (k4, 5), (k5, 6)][:n])


def op_content1(i0: int, t0: int) -> bool:
    """
    pre: 0 <= i0 <= 8 and 0 <= t0 <= 3
    post: _
    """
    return _op_sequences([(0, 4), (0, i0), (1, t0), (2, 0)])


def op_content(i0: int, t0: int, i1: int, t1: int) -> bool:
    """
    pre: 0 <= i0 <= 8 and 0 <= i1 <= 8 and 0 <= t0 <= 3 and 0 <= t1 <= 3
    post: _
    """
    return _op_sequences([(0, i0), (1, t0), (0, i1), (1, t1), (2, 0)])


def _op_sequences(ops):
    text, root = _run_ops(ops)
    mark.hit()
    if root is None:
        return True
    body = text.split('?>', 1)[1]
    try:
        parsed = ET.fromstring(body)
    except ET.ParseError:
        return False
    return _strip_ws(parsed) == _model(root)


def xhtml_sequences(t0: int, t1: int, br: bool) -> bool:
    """
    pre: 0 <= t0 <= 7 and 0 <= t1 <= 7
    post: _
    """
    t0, t1, br = mark.pick(t0, 0, 7), mark.pick(t1, 0, 7), mark.pickb(br)
    with mark.untraced():
        return _xhtml_sequences(t0, t1, br)


def _xhtml_sequences(t0, t1, br):
    f = io.StringIO()
    # other characters that str.splitlines() treats as line ends are ordinary text for the writer: only LF becomes <br/>
    texts = ['one', 'two\nlines', '\nlead<&>', 'trail\n\n', 'COMPANY\r\nWELL', 'trailing CR\r', 'DEPTH\x85 0.1 in', 'RUN 1\u2028RUN 2\u2029']
    with XmlWrite.XhtmlStream(f) as xs:
        with XmlWrite.Element(xs, 'body'):
            with XmlWrite.Element(xs, 'p', {'class': 'c"1'}):
                if br:
                    xs.charactersWithBr(texts[t0])
                else:
                    xs.characters(texts[t0])
            with XmlWrite.Element(xs, 'p'):
                xs.charactersWithBr(texts[t1])
    mark.hit()
    doc = f.getvalue()
    body = doc.split('?>', 1)[1]
    i = body.find('<html')
    try:
        root = ET.fromstring(body[i:])
    except ET.ParseError:
        return False
    ns = '{http://www.w3.org/1999/xhtml}'
    ps = root.findall('%sbody/%sp' % (ns, ns))
    if len(ps) != 2 or ps[0].get('class') != 'c"1':
        return False

    def flat(p):
        s = p.text or ''
        for c in p:
            if c.tag != ns + 'br':
                return None
            s += '\n' + (c.tail or '')
        return s
    if br:
        if flat(ps[0]) != texts[t0]:
            return False
    elif (ps[0].text or '') != texts[t0] or len(ps[0]):
        return False
    return flat(ps[1]) == texts[t1]


def rle_entries_small(n: int, x0: int, x1: int, x2: int, hexa: bool) -> bool:
    """
    pre: 1 <= n <= 3
    pre: -1 <= x0 <= 2 and -1 <= x1 <= 2 and -1 <= x2 <= 2
    pre: (n >= 2 or x1 == 0) and (n >= 3 or x2 == 0)
    post: _
    """
    n, x0, hexa = mark.pick(n, 1, 3), mark.pick(x0, -1, 2), mark.pickb(hexa)
    x1 = mark.pick(x1, -1, 2) if n >= 2 else 0
    x2 = mark.pick(x2, -1, 2) if n >= 3 else 0
    with mark.untraced():
        return _rle_entries(n, x0, x1, x2, 0, hexa)


def rle_entries(n: int, x0: int, x1: int, x2: int, x3: int, hexa: bool) -> bool:
    """
    pre: 1 <= n <= 4
    pre: -3 <= x0 <= 3 and -3 <= x1 <= 3 and -3 <= x2 <= 3 and -3 <= x3 <= 3
    pre: (n >= 2 or x1 == 0) and (n >= 3 or x2 == 0) and (n >= 4 or x3 == 0)
    pre: PART < 0 or x0 + 3 == PART
    post: _
    """
    n, x0, hexa = mark.pick(n, 1, 4), mark.pick(x0, -3, 3), mark.pickb(hexa)
    x1 = mark.pick(x1, -3, 3) if n >= 2 else 0
    x2 = mark.pick(x2, -3, 3) if n >= 3 else 0
    x3 = mark.pick(x3, -3, 3) if n >= 4 else 0
    with mark.untraced():
        return _rle_entries(n, x0, x1, x2, x3, hexa)


def _rle_entries(n, x0, x1, x2, x3, hexa):
    from TotalDepth.RP66V1 import IndexXML
    xs_ = [x0, x1, x2, x3][:n]
    if hexa:
        # record positions: non-negative and ascending
        acc, seq = 80, []
        for x in xs_:
            acc += abs(x) * 16 + 4
            seq.append(acc)
    else:
        seq = xs_
    rle = Rle.create_rle(seq)
    f = io.StringIO()
    with XmlWrite.XmlStream(f) as xs:
        IndexXML.xml_rle_write(rle, 'Seq', xs, hexa)
    mark.hit()
    body = f.getvalue().split('?>', 1)[1]
    try:
        root = ET.fromstring(body)
    except ET.ParseError:
        return False
    if root.tag != 'Seq' or int(root.get('count')) != len(seq) or int(root.get('rle_len')) != len(root):
        return False
    out = []
    for item in root:
        if item.tag != 'RLE':
            return False
        d, s, r = int(item.get('datum'), 0), int(item.get('stride'), 0), int(item.get('repeat'))
        for i in range(r + 1):
            out.append(d + i * s)
    return out == seq


# ---------------------------------------------------------------------------------------------------- float run-length entries (the <Xaxis> element)

FBASE = [0.1, 1000.0, 1.6e12, -805.2105103]
FSTRIDE = [0.1, 0.0025399999999535794, 1000.0, -0.5]


def _jit(v, stride, j):
    """j: 0 exact continuation, 1 one unit in the last place off, 2 relative 1e-10 off, 3 relative 1e-7 off, 4 a quarter stride off."""
    import sys
    if j == 1:
        return v * (1.0 + sys.float_info.epsilon)
    if j == 2:
        return v * (1.0 + 1e-10)
    if j == 3:
        return v * (1.0 - 1e-7)
    if j == 4:
        return v + stride * 0.25
    return v


def rle_float_entries(n: int, b: int, st: int, j2: int, j3: int, j4: int) -> bool:
    """
    pre: 2 <= n <= 5 and 0 <= b <= 3 and 0 <= st <= 3
    pre: 0 <= j2 <= 4 and 0 <= j3 <= 4 and 0 <= j4 <= 4
    pre: (n >= 3 or j2 == 0) and (n >= 4 or j3 == 0) and (n >= 5 or j4 == 0)
    pre: PART < 0 or b * 4 + st == PART
    post: _
    """
    n, b, st = mark.pick(n, 2, 5), mark.pick(b, 0, 3), mark.pick(st, 0, 3)
    j2 = mark.pick(j2, 0, 4) if n >= 3 else 0
    j3 = mark.pick(j3, 0, 4) if n >= 4 else 0
    j4 = mark.pick(j4, 0, 4) if n >= 5 else 0
    with mark.untraced():
        return _rle_float_entries(n, b, st, j2, j3, j4)


def _rle_float_entries(n, b, st, j2, j3, j4):
    import os
    import sys
    from TotalDepth.RP66V1 import IndexXML
    base, stride = FBASE[b], FSTRIDE[st]
    seq = [base, base + stride]
    for i, j in zip(range(2, n), (j2, j3, j4)):
        seq.append(_jit(base + i * stride, stride, j))
    rle = Rle.create_rle(seq)
    f = io.StringIO()
    with XmlWrite.XmlStream(f) as xs:
        IndexXML.xml_rle_write(rle, 'Xaxis', xs, False)
    mark.hit()
    root = ET.fromstring(f.getvalue().split('?>', 1)[1])
    if root.tag != 'Xaxis' or int(root.get('count')) != len(seq) or int(root.get('rle_len')) != len(root):
        return False
    out = []
    for item in root:
        d, s, r = float(item.get('datum')), float(item.get('stride')), int(item.get('repeat'))
        for i in range(r + 1):
            out.append(d + i * s)
    if len(out) != len(seq):
        return False
    if 'rle_float_run_within_one_ulp' in os.environ.get('VERIF_EXCLUDE', ''):
        # known finding: a value within one unit in the last place of the extrapolated one is absorbed into the run.  The oracle then allows
        # exactly that much and nothing more.
        eps = sys.float_info.epsilon
        return all(abs(a - e) <= eps * max(abs(a), abs(e)) for a, e in zip(out, seq))
    return out == seq


# ---------------------------------------------------------------------------------------------------- documents written to a file with a declared encoding

FILE_TEXTS = ['plain', 'µm', 'café', 'x²', 'Ω·m <&>', 'DEPT µm', '中文', 'naïve "q"']
FILE_ENCODINGS = ['utf-8', 'latin-1', 'ascii', 'cp1252']


def xml_file_declared_encoding(e: int, t0: int, t1: int) -> bool:
    """
    pre: 0 <= e <= 3 and 0 <= t0 <= 7 and 0 <= t1 <= 7
    post: _
    """
    e, t0, t1 = mark.pick(e, 0, 3), mark.pick(t0, 0, 7), mark.pick(t1, 0, 7)
    with mark.untraced():
        return _xml_file_declared_encoding(e, t0, t1)


def _xml_file_declared_encoding(e, t0, t1):
    """The stream opens the path itself (platform default text encoding) and declares theEnc in the XML declaration: whatever is declared,
    the parser, which honours the declaration, must give back the attribute and the text that were written."""
    import shutil
    import tempfile
    tmp = tempfile.mkdtemp(prefix='verif_c18_')
    try:
        path = os.path.join(tmp, 'doc.xml')
        with XmlWrite.XmlStream(path, theEnc=FILE_ENCODINGS[e]) as xs:
            with XmlWrite.Element(xs, 'Root', {'units': FILE_TEXTS[t0]}):
                xs.characters(FILE_TEXTS[t1])
        mark.hit()
        try:
            root = ET.parse(path).getroot()
        except ET.ParseError:
            return False
        return root.get('units') == FILE_TEXTS[t0] and (root.text or '') == FILE_TEXTS[t1]
    finally:
        shutil.rmtree(tmp, ignore_errors=True)


# ---------------------------------------------------------------------------------------------------- mixed content: text is recovered exactly (no indentation inside)

def _run_mixed(kinds):
    """kinds: sequence over 0 = start element, 1 = characters, 2 = end element.  Model nodes: [name, text, children, tail]."""
    f = io.StringIO()
    root = None
    stack = []
    nth = 0
    with XmlWrite.XmlStream(f) as xs:
        for k in kinds:
            if k == 0:
                if root is not None and not stack:
                    continue
                name = NAMES[len(stack) % 3]
                xs.startElement(name, {})
                node = [name, '', [], '']
                if stack:
                    stack[-1][2].append(node)
                else:
                    root = node
                stack.append(node)
            elif k == 1:
                if not stack:
                    continue
                t = ['Depth: ', ' m', '1000.5'][nth % 3]
                nth += 1
                xs.characters(t)
                if stack[-1][2]:
                    stack[-1][2][-1][3] += t        # after a child: that child's tail
                else:
                    stack[-1][1] += t
            else:
                if not stack:
                    continue
                xs.endElement(stack[-1][0])
                stack.pop()
    return f.getvalue(), root


def _has_text(n):
    return bool(n[1]) or any(c[3] for c in n[2])


def _exact(e, n, inside_mixed):
    """Element e against model n.  The writer indents element-only content; once an element has received character data (and inside any
    element that had received character data when this one was started) nothing may be added: every text and tail is then EXACT.  White
    space only text before the first character data of an element is formatting (the writer cannot know that text will follow)."""
    if e.tag != n[0] or len(e) != len(n[2]):
        return False
    started = inside_mixed
    slots = [((e.text or ''), n[1], None, None)] + [((ce.tail or ''), cn[3], ce, cn) for ce, cn in zip(e, n[2])]
    for got, want, ce, cn in slots:
        if ce is not None and not _exact(ce, cn, started):        # the child was written before this slot's text
            return False
        if want != '':
            # formatting written before the text started cannot be taken back: leading white space is allowed on the FIRST text only
            if (got != want) if started else (got.lstrip() != want.lstrip() or not got.endswith(want)):
                return False
            started = True
        elif started:
            if got != '':
                return False
        elif got.strip() != '':
            return False
    return True


def mixed_content(n: int, k0: int, k1: int, k2: int, k3: int, k4: int, k5: int, k6: int) -> bool:
    """
    pre: 1 <= n <= 7
    pre: 0 <= k0 <= 2 and 0 <= k1 <= 2 and 0 <= k2 <= 2 and 0 <= k3 <= 2 and 0 <= k4 <= 2 and 0 <= k5 <= 2 and 0 <= k6 <= 2
    pre: k0 == 0
    pre: PART < 0 or k1 * 3 + k2 == PART
    post: _
    """
    n = mark.pick(n, 1, 7)
    ks = [mark.pick(k, 0, 2) if i < n else 0 for i, k in enumerate((k0, k1, k2, k3, k4, k5, k6))]
    with mark.untraced():
        text, root = _run_mixed(ks[:n])
        mark.hit()
        if root is None:
            return True
        try:
            parsed = ET.fromstring(text.split('?>', 1)[1])
        except ET.ParseError:
            return False
        return _exact(parsed, root, False)
