"""C17 CrossHair harness: the RP66V1 unit conversion entry (RP66V1.core.Units.convert / convert_function: OSDD conversion behind a per-producer
spelling map) equals the OSDD conversion of the mapped units for every pair of a unit vocabulary, whichever of the two units needs mapping,
and refuses unknown producers, unknown units and units of different dimensions with the documented units error."""
import logging
import math
logging.disable(logging.CRITICAL)
from engine import mark
from TotalDepth.common import lookup_mnemonic, units as U
from TotalDepth.RP66V1.core import Units as RU


def _no_network(_url):
    raise lookup_mnemonic.ExceptionLookupMnemonicReadURL('verif: the packaged OSDD table is used, never the network')


lookup_mnemonic._parse_url_to_beautiful_soup = _no_network

# a second producer map through the documented extension point: a producer whose 'ft' and 'in' are US survey units
TEST_MAP = {b'ft': b'ftUS', b'in': b'inUS'}
PRODUCERS = [0, 280, 9999, 7]                 # none, the built-in example map, the registered map, an unknown producer
UNITS = [b'ft', b'in', b'm', b'ftUS', b'ltrs', b'dm3', b'sec', b'SEC', b'gapi', b'GAPI', b'degC', b'nosuch']
VALUES = [0.0, 2.5, -1000.0]
_TABLE = {}


def _osdd(code):
    if not _TABLE:
        _TABLE.update(U.read_osdd_static_data())
    return _TABLE.get(code.decode('ascii'))


def _wrapper(pi, ui, uj, vi):
    RU.PRODUCER_CODE_MAPPING_OF_UNIT_CODE[9999] = dict(TEST_MAP)
    prod, a, b, v = PRODUCERS[pi], UNITS[ui], UNITS[uj], VALUES[vi]
    # independent statement of the mapping
    maps = {0: {}, 280: {b'ltrs': b'dm3', b'sec': b'SEC', b'gapi': b'GAPI'}, 9999: TEST_MAP}
    want = None
    if prod in maps:
        ma, mb = maps[prod].get(a, a), maps[prod].get(b, b)
        oa, ob = _osdd(ma), _osdd(mb)
        if oa is not None and ob is not None and oa.dimension == ob.dimension:
            want = (v - oa.offset) * oa.scale / ob.scale + ob.offset
    mark.hit()
    for entry in (lambda: RU.convert(v, a, b, prod), lambda: RU.convert_function(a, b, prod)(v)):
        try:
            got = entry()
        except RU.ExceptionRP66V1Units:
            if want is not None:
                return False
            continue
        if want is None or not math.isclose(got, want, rel_tol=1e-12, abs_tol=1e-12):
            return False
    return True


def rp66_units_wrapper(pi: int, ui: int, uj: int, vi: int) -> bool:
    """
    pre: 0 <= pi <= 3 and 0 <= ui <= 11 and 0 <= uj <= 11 and 0 <= vi <= 2
    post: _
    """
    pi, ui, uj, vi = mark.pick(pi, 0, 3), mark.pick(ui, 0, 11), mark.pick(uj, 0, 11), mark.pick(vi, 0, 2)
    with mark.untraced():
        return _wrapper(pi, ui, uj, vi)
