"""C18 CrossHair harness: the RP66V1 XML index has one entry per table and frame type of the file, and its run-length entries expand to the
frame numbers, record positions and X values of the in-memory index (and of the file that was encoded)."""
import io
import logging
import os
import shutil
import struct
import sys
import tempfile
logging.disable(logging.CRITICAL)
PART = int(os.environ.get('VERIF_PART', '-1'))
import xml.etree.ElementTree as ET
from engine import mark
from spec import rp66_file_ref as F
from spec import rp66_eflr_ref as E

FDOUBL = 7
CH_A = [(b'DEPT', FDOUBL, b'm', [1]), (b'GR', E.USHORT, b'gAPI', [1])]
CH_B = [(b'TIME', FDOUBL, b's', [1]), (b'WF', E.UNORM, b'mV', [2])]
# X values: regular, irregular, one unit in the last place off a regular run (known finding C18 rle_float_run_within_one_ulp)
XKIND = [lambda n: 1000.5 + 0.25 * n, lambda n: 0.1 * n * n, lambda n: 0.1 * n]


def _frame(ftype, n, xk):
    x = XKIND[xk](n)
    if ftype == 0:
        return struct.pack('>d', x) + bytes([(7 * n) % 256]), x
    return struct.pack('>d', x) + struct.pack('>HH', 100 + n, 200 + n), x


def _build(order, private_table, second_lf, vr_each, xk, gap=False):
    """Returns (file bytes, layout, model) with model = list per logical file of dict(tables=[(lr type, set type, n objects, record index)],
    frames={frame name: [(frame number, x, record index)]})."""
    recs = []
    model = []
    for lf in range(2 if second_lf else 1):
        m = dict(tables=[], frames={})
        two = (1 in order) and lf == 0
        m['tables'].append((0, b'FILE-HEADER', 1, len(recs)))
        recs.append(F.record(True, 0, F.file_header(lf + 1), new_vr=vr_each))
        m['tables'].append((1, b'ORIGIN', 1, len(recs)))
        recs.append(F.record(True, 1, F.origin(), new_vr=vr_each))
        if private_table and lf == 0:
            # a producer-private table: logical record type >= 128 (RP66V1 3.2.3.2, Appendix A)
            m['tables'].append((0x80, b'ACME-TOOL-CFG', 2, len(recs)))
            recs.append(F.record(True, 0x80, F.eflr(b'ACME-TOOL-CFG', [(b'GAIN', E.UNORM)], [((2, 0, b'T1'), [[300]]), ((2, 0, b'T2'), [[301]])]), new_vr=vr_each))
        chans = CH_A + (CH_B if two else [])
        m['tables'].append((3, b'CHANNEL', len(chans), len(recs)))
        recs.append(F.record(True, 3, F.channel(chans), new_vr=vr_each))
        frames = [(b'FA', [c[0] for c in CH_A])] + ([(b'FB', [c[0] for c in CH_B])] if two else [])
        m['tables'].append((4, b'FRAME', len(frames), len(recs)))
        recs.append(F.record(True, 4, F.frame(frames), new_vr=vr_each))
        for fn, _ in frames:
            m['frames'][fn] = []
        counts = [0, 0]
        for t in (order if lf == 0 else [0, 0]):
            counts[t] += 1
            if gap and counts[t] == 3:
                counts[t] = 7         # frame numbers with a gap (1, 2, 7, 8, ...): the index records the numbers the file gives, whatever they are
            data, x = _frame(t, counts[t], xk)
            name = b'FA' if t == 0 else b'FB'
            m['frames'][name].append((counts[t], x, len(recs)))
            recs.append(F.record(False, 0, F.iflr(name, counts[t], data), new_vr=vr_each))
        if lf == 0:
            m['tables'].append((5, b'PARAMETER', 2, len(recs)))
            recs.append(F.record(True, 5, F.eflr(b'PARAMETER', [(b'LONG-NAME', F.ASCII), (b'VALUES', E.UNORM)],
                                                 [((2, 0, b'P0'), [[b'121 \xb0C'], [300]]), ((2, 0, b'P1'), [[b'57.3 \xb5s/ft <&>'], [301]])]), new_vr=vr_each))
        model.append(m)
    data, layout = F.build(recs)
    return data, layout, model


def _expand(elem, conv):
    out = []
    for item in elem:
        if item.tag != 'RLE':
            return None
        d, s, r = conv(item.get('datum')), conv(item.get('stride')), int(item.get('repeat'))
        for i in range(r + 1):
            out.append(d + i * s)
    if int(elem.get('count')) != len(out) or int(elem.get('rle_len')) != len(elem):
        return None
    return out


def _same_objects(xml_objs, mem_objs):
    for xo, (name, attrs) in zip(xml_objs, mem_objs):
        if (int(xo.get('O')), int(xo.get('C')), xo.get('I')) != (name.O, name.C, name.I.decode('latin-1')):
            return False
        xattrs = xo.findall('Attribute')
        if len(xattrs) != len(attrs):
            return False
        for xa, (label, values) in zip(xattrs, attrs):
            if xa.get('label') != label.decode('latin-1'):
                return False
            xvals = list(xa)
            if len(xvals) != (len(values) if values is not None else 0):
                return False
            for xv, v in zip(xvals, values or []):
                if isinstance(v, bytes):
                    if xv.tag != 'Value' or xv.get('type') != 'bytes' or xv.get('value') != v.decode('latin-1'):
                        return False
                elif isinstance(v, (int, float)):
                    if xv.tag != 'Value' or xv.get('value') != str(v):
                        return False
                elif hasattr(v, 'O') and hasattr(v, 'I'):
                    if xv.tag != 'ObjectName' or (int(xv.get('O')), int(xv.get('C')), xv.get('I')) != (v.O, v.C, v.I.decode('latin-1')):
                        return False
                elif xv.tag != 'Value' or xv.get('value') != str(v):
                    return False
    return True


def _floats_equal(got, want):
    if got is None or len(got) != len(want):
        return False
    if 'rle_float_run_within_one_ulp' in os.environ.get('VERIF_EXCLUDE', ''):
        eps = sys.float_info.epsilon
        return all(abs(a - b) <= eps * max(abs(a), abs(b)) for a, b in zip(got, want))
    return got == want


ORDERS = [[0], [0, 0, 0], [0, 1, 0, 1, 0], [1, 0, 0, 1, 0, 0], [0, 0, 0, 0, 0]]


def _index_xml(order, private_table, second_lf, vr_each, xk, private, gap=False):
    from TotalDepth.RP66V1 import IndexXML
    from TotalDepth.RP66V1.core import LogicalFile
    data, layout, model = _build(ORDERS[order], private_table, second_lf, vr_each, xk, gap)
    tmp = tempfile.mkdtemp(prefix='verif_c18_')
    try:
        path = os.path.join(tmp, 'in.dlis')
        with open(path, 'wb') as f:
            f.write(data)
        out = io.StringIO()
        with LogicalFile.LogicalIndex(path) as li:
            IndexXML.write_logical_file_sequence_to_xml(li, out, private)
            vr_positions = list(li.visible_record_positions)
            memory = [[[(o.name, [(a.label, a.value) for a in o.attrs]) for o in pe.eflr.objects] for pe in lf.eflrs] for lf in li.logical_files]
        mark.hit()
        try:
            root = ET.fromstring(out.getvalue().split('?>', 1)[1])
        except ET.ParseError:
            return False
        lfs = root.find('LogicalFiles')
        if lfs is None or int(lfs.get('count')) != len(model) or len(lfs.findall('LogicalFile')) != len(model):
            return False
        for lfe, m in zip(lfs.findall('LogicalFile'), model):
            # one entry per table, in file order, at its position, with its type and object count
            eflrs = lfe.findall('EFLR')
            if len(eflrs) != len(m['tables']):
                return False
            for e, (lrt, st, nobj, ri) in zip(eflrs, m['tables']):
                if (int(e.get('lr_type')), e.get('set_type'), int(e.get('object_count'))) != (lrt, st.decode('ascii'), nobj):
                    return False
                if (int(e.get('vr_position'), 16), int(e.get('lrsh_position'), 16)) != (layout[ri][0], layout[ri][1]):
                    return False
                # the objects of a private table are listed only on request; those of public tables always
                want_objs = nobj if (private or lrt < 128) else 0
                if len(e.findall('Object')) != want_objs:
                    return False
                # every listed object carries the attribute values the in-memory table holds (text as Latin-1, numbers in decimal)
                if want_objs and not _same_objects(e.findall('Object'), memory[model.index(m)][eflrs.index(e)]):
                    return False
            # one entry per frame type with its channels and the run-length encoded frame numbers, positions and X values
            lp = lfe.find('LogPass')
            if lp is None or int(lp.get('count')) != len(m['frames']):
                return False
            fas = lp.findall('FrameArray')
            if [fa.get('I') for fa in fas] != [k.decode('ascii') for k in m['frames']]:
                return False
            for fa, (name, frames) in zip(fas, m['frames'].items()):
                chdefs = CH_A if name == b'FA' else CH_B
                chs = fa.find('Channels').findall('Channel')
                if [(c.get('I'), int(c.get('rep_code')), c.get('units')) for c in chs] != [(c[0].decode(), c[1], c[2].decode()) for c in chdefs]:
                    return False
                iflr = fa.find('IFLR')
                if int(iflr.get('count')) != len(frames):
                    return False
                if len(frames) == 0:
                    continue
                if _expand(iflr.find('FrameNumbers'), lambda s: int(s, 0)) != [f[0] for f in frames]:
                    return False
                if _expand(iflr.find('LRSH'), lambda s: int(s, 0)) != [layout[f[2]][1] for f in frames]:
                    return False
                if not _floats_equal(_expand(iflr.find('Xaxis'), float), [f[1] for f in frames]):
                    return False
        vr = root.find('VisibleRecords')
        # (the in-memory list holds the visible record position of every logical record: duplicates when records share a visible record)
        if vr is None or _expand(vr, lambda s: int(s, 0)) != vr_positions or sorted(set(vr_positions)) != sorted({l[0] for l in layout}):
            return False
        return True
    finally:
        shutil.rmtree(tmp, ignore_errors=True)


def index_xml(order: int, private_table: bool, second_lf: bool, vr_each: bool, xk: int, private: bool, gap: bool = False) -> bool:
    """
    pre: 0 <= order <= 4 and 0 <= xk <= 2
    pre: PART < 0 or order * 3 + xk == PART
    post: _
    """
    order, xk = mark.pick(order, 0, 4), mark.pick(xk, 0, 2)
    private_table, second_lf, vr_each, private, gap = mark.pickb(private_table), mark.pickb(second_lf), mark.pickb(vr_each), mark.pickb(private), mark.pickb(gap)
    with mark.untraced():
        return _index_xml(order, private_table, second_lf, vr_each, xk, private, gap)
